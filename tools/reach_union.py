#!/usr/bin/env python3
"""tools/reach_union.py — which functions of xobjects/*.py did the workloads of all checks enter, and which never?

Reads evidence/*.json (`coverage.library_function_names`, recorded by sys.monitoring PY_START counters in every
worker) and compares with the functions defined in /repo/xobjects (ast).  Output: reach_report.json + a summary.
This is an observation aid (where no monitor has looked at all), not a verdict."""
import ast
import glob
import json
import os
import sys

HERE = os.path.dirname(os.path.dirname(os.path.abspath(__file__)))
REPO = os.environ.get("XV_REPO", "/repo")


def defined():
    out = {}
    for p in sorted(glob.glob(os.path.join(REPO, "xobjects", "*.py"))):
        rel = os.path.basename(p)
        tree = ast.parse(open(p).read())

        def visit(node, prefix):
            for ch in ast.iter_child_nodes(node):
                if isinstance(ch, (ast.FunctionDef, ast.AsyncFunctionDef)):
                    q = prefix + ch.name
                    out[f"{rel}:{q}"] = ch.lineno
                    visit(ch, q + ".<locals>.")
                elif isinstance(ch, ast.ClassDef):
                    visit(ch, prefix + ch.name + ".")
                else:
                    visit(ch, prefix)
        visit(tree, "")
    return out


def main():
    d = defined()
    by = {}
    for p in sorted(glob.glob(os.path.join(HERE, "evidence", "C*.json"))):
        ev = json.load(open(p))
        cov = ev.get("coverage")
        if isinstance(cov, str):
            continue
        for n in (cov or {}).get("library_function_names", []):
            by.setdefault(n, []).append(ev["property_id"])
    never = {}
    for k, ln in d.items():
        if k not in by:
            never.setdefault(k.split(":")[0], []).append(f"{k.split(':')[1]} (line {ln})")
    rep = dict(defined=len(d), entered=len([k for k in d if k in by]), never_entered=never,
               entered_by={k: v for k, v in sorted(by.items())})
    json.dump(rep, open(os.path.join(HERE, "reach_report.json"), "w"), indent=1, sort_keys=True)
    print(f"defined {rep['defined']} entered {rep['entered']}")
    for f, v in sorted(never.items()):
        print(f, len(v))
        for x in v:
            print("   ", x)


if __name__ == "__main__":
    main()
