#!/usr/bin/env python3
"""tools/verify_seed.py <dir with patch.diff, demo.py, notes.md> <PID> <name> [extra PIDs to try...]

Confirms an independently written property-breaking change in a scratch worktree of /repo:
 1. patch applies, 2. the repository suite still passes with it, 3. demo.py fails with it and passes without it,
then runs the owning check(s) against the patched tree and files the change as /verif/seeded/<name>/ with meta.json.
"""
import json, os, re, shutil, subprocess, sys, tempfile, time

HERE = os.path.dirname(os.path.dirname(os.path.abspath(__file__)))
src, pid, name = sys.argv[1:4]
extra = sys.argv[4:]
SUITE = ["/venv/bin/python", "-m", "pytest", "-q", "-p", "no:cacheprovider", "--timeout=900", "tests"]


def sh(cmd, **kw):
    return subprocess.run(cmd, capture_output=True, text=True, **kw)


d = tempfile.mkdtemp(prefix="xvseed")
wt = os.path.join(d, "wt")
meta = dict(property=pid, source="independent sub-agent given only the property text", ran={})
try:
    assert sh(["git", "-C", "/repo", "worktree", "add", "-q", "--detach", wt, "HEAD"]).returncode == 0
    env = dict(os.environ, PYTHONPATH=wt)
    env.pop("XOBJECTS_VERIF", None)
    demo = os.path.join(src, "demo.py")
    r = sh(["/venv/bin/python", demo], cwd=wt, env=env)
    meta["ran"]["demo_clean_rc"] = r.returncode
    r = sh(["git", "-C", wt, "apply", os.path.join(src, "patch.diff")])
    if r.returncode:
        print("PATCH DOES NOT APPLY", r.stderr); sys.exit(2)
    files = sh(["git", "-C", wt, "diff", "--name-only"]).stdout.split()
    meta["files"] = files
    r = sh(["/venv/bin/python", demo], cwd=wt, env=env)
    meta["ran"]["demo_patched_rc"] = r.returncode
    meta["ran"]["demo_patched_tail"] = (r.stderr.strip().splitlines() or r.stdout.strip().splitlines() or [""])[-1][:300]
    r = sh(SUITE, cwd=wt, env=env)
    meta["ran"]["suite_rc"] = r.returncode
    meta["ran"]["suite_tail"] = (r.stdout.strip().splitlines() or [""])[-1]
    ok = meta["ran"]["demo_clean_rc"] == 0 and meta["ran"]["demo_patched_rc"] != 0 and meta["ran"]["suite_rc"] == 0
    print("confirmed" if ok else "NOT CONFIRMED", json.dumps(meta["ran"]))
    if not ok:
        sys.exit(3)
    caught = []
    for p in [pid] + extra:
        t0 = time.time()
        r = sh([os.path.join(HERE, "check"), p, "--tier", "quick", "--no-evidence"], env=dict(os.environ, XV_REPO=wt))
        mechs = re.findall(r"mechanism=(\S+) occurrences=(\d+)", r.stdout)
        meta["ran"][f"check_{p}"] = dict(rc=r.returncode, wall=round(time.time() - t0, 1), mechanisms=[f"{m} x{n}" for m, n in mechs[:5]])
        print(p, "rc", r.returncode, mechs[:4])
        if r.returncode == 1:
            caught.append(p)
    meta["caught_by"] = caught
    notes = open(os.path.join(src, "notes.md")).read() if os.path.exists(os.path.join(src, "notes.md")) else ""
    meta["needs_to_manifest"] = notes[:1500]
    out = os.path.join(HERE, "seeded", name)
    os.makedirs(out, exist_ok=True)
    for f in ("patch.diff", "demo.py", "notes.md"):
        if os.path.exists(os.path.join(src, f)):
            shutil.copy(os.path.join(src, f), os.path.join(out, f))
    json.dump(meta, open(os.path.join(out, "meta.json"), "w"), indent=1)
    print("filed", out, "caught_by", caught)
finally:
    sh(["git", "-C", "/repo", "worktree", "remove", "--force", wt])
    shutil.rmtree(d, ignore_errors=True)
