#!/usr/bin/env python3
"""tools/refresh_seed.py NAME... — a seeded patch that no longer applies to /repo HEAD (later repository fixes touched
the same lines) is re-applied with a 3-way merge in a scratch worktree; when that succeeds without conflicts and the
demo still fails with it (and passes without), the refreshed diff replaces patch.diff (the original is kept as
patch.orig.diff) and meta.json records it."""
import json, os, shutil, subprocess, sys, tempfile
HERE = os.path.dirname(os.path.dirname(os.path.abspath(__file__)))


def sh(cmd, **kw):
    return subprocess.run(cmd, capture_output=True, text=True, **kw)


for name in sys.argv[1:]:
    sd = os.path.join(HERE, "seeded", name)
    d = tempfile.mkdtemp(prefix="xvref")
    wt = os.path.join(d, "wt")
    try:
        sh(["git", "-C", "/repo", "worktree", "add", "-q", "--detach", wt, "HEAD"])
        env = dict(os.environ, PYTHONPATH=wt)
        env.pop("XOBJECTS_VERIF", None)
        clean = sh(["/venv/bin/python", os.path.join(sd, "demo.py")], cwd=wt, env=env).returncode
        r = sh(["git", "-C", wt, "apply", "--3way", os.path.join(sd, "patch.diff")])
        unmerged = sh(["git", "-C", wt, "diff", "--name-only", "--diff-filter=U"]).stdout.strip()
        if r.returncode or unmerged:
            print(name, "3-way merge failed:", (r.stderr or unmerged)[-200:].replace("\n", " "))
            continue
        sh(["git", "-C", wt, "reset", "-q"])
        diff = sh(["git", "-C", wt, "diff"]).stdout
        patched = sh(["/venv/bin/python", os.path.join(sd, "demo.py")], cwd=wt, env=env).returncode
        if clean != 0 or patched == 0:
            print(name, f"demo no longer discriminates (clean rc={clean}, patched rc={patched})")
            continue
        if not os.path.exists(os.path.join(sd, "patch.orig.diff")):
            shutil.copy(os.path.join(sd, "patch.diff"), os.path.join(sd, "patch.orig.diff"))
        open(os.path.join(sd, "patch.diff"), "w").write(diff)
        m = json.load(open(os.path.join(sd, "meta.json")))
        head = sh(["git", "-C", "/repo", "log", "-1", "--format=%h"]).stdout.strip()
        m["ported"] = f"patch.diff re-applied by 3-way merge onto {head} (later repository fixes touched the same lines); demo still fails with it and passes without; patch.orig.diff is the original"
        json.dump(m, open(os.path.join(sd, "meta.json"), "w"), indent=1)
        print(name, "refreshed")
    finally:
        sh(["git", "-C", "/repo", "worktree", "remove", "--force", wt])
        shutil.rmtree(d, ignore_errors=True)
