#!/usr/bin/env python3
"""tools/validate.py — validates MANIFEST.json and evidence/*.json against the schemas (run with python3-vt)."""
import json, glob, sys, jsonschema
ok = True
m = json.load(open('/verif/MANIFEST.json'))
try:
    jsonschema.validate(m, json.load(open('/root/.vp/MANIFEST.schema.json'))); print('manifest ok')
except Exception as e:
    ok = False; print('MANIFEST INVALID', str(e)[:500])
es = json.load(open('/root/.vp/EVIDENCE.schema.json'))
for f in sorted(glob.glob('/verif/evidence/*.json')):
    try:
        jsonschema.validate(json.load(open(f)), es)
    except Exception as e:
        ok = False; print('EVIDENCE INVALID', f, str(e)[:300])
print('evidence files:', len(glob.glob('/verif/evidence/*.json')))
sys.exit(0 if ok else 1)
