#!/usr/bin/env python3
"""Regenerates /verif/MANIFEST.json from the table below (kept in one place so the
manifest stays consistent with what is built)."""
import json, os, subprocess

HERE = os.path.dirname(os.path.dirname(os.path.abspath(__file__)))
BASE_OFF = ("cd /repo && /venv/bin/python -m pytest -ra -q -p no:cacheprovider --timeout=900 "
            "--continue-on-collection-errors")

CHECKS = {
    "C01": dict(
        technique="runtime monitoring: reference-model monitor (value model vs every accessor) over generated types, values, input forms and poisoned placements",
        text="Held on the observed executions: each generated object is re-read through every field/item/nested accessor, to_nplike/to_nparray/_to_dict/len/_shape and compared bit-exactly with the model value; byte-exact icontract contracts on the copy primitives ride along. Exploration bounded by depth/extent.",
        note="Trusted: numpy scalar conversions; the harness' domain restrictions listed in the evidence assumptions.", ref="2 C01"),
    "C03": dict(
        technique="runtime monitoring: write log + whole-buffer byte diff against reserved extents (allocation log, independent decoder's extent tree)",
        text="Held on the observed constructions and fitting assignments: every logged primitive write and every changed byte lies in the reserved extent or an allocation made during the operation; reported/allocated/documented/decoded sizes agree; extent tree nesting and sibling disjointness; stamped neighbours intact.",
        note="Trusted: wrappers on the buffer primitives see all library writes; writes through to_nplike views are caught by the byte diff only.", ref="2 C03"),
    "C05": dict(
        technique="runtime monitoring: independent observer (decoder written from the format documents only) over raw bytes of generated objects",
        text="Held on the observed objects: a decoder that shares no code or class attributes with the library recovers the model value from the raw buffer bytes with no format violation, after construction from ten input forms and after each of up to three fitting assignments.", 
        note="Where types.rst and the property text disagree on Ref encoding, the property text wins. Padding bytes are not inspected.", ref="2 C05"),
    "C06": dict(
        technique="runtime monitoring: differential observation of constructor handle vs _from_buffer view (model comparison, structural attributes, cross write/read)",
        text="Held on the observed objects: root and every nested compound compared between handle, view-through-handle and fresh view (also after forced growth); writes through one side, including stores through to_nplike()/to_nparray() windows, read back through the other.",
        note="Internal caches (_offsets) are not compared, only observable attributes (_offset,_shape,_strides,_size,len) and values.", ref="2 C06"),
    "C13": dict(
        technique="runtime contracts (icontract pre/postconditions with whole-buffer snapshots) under small-scope exhaustive enumeration",
        text="Every primitive call of the enumerated scope (both buffer kinds, capacity<=12/20, all offsets/lengths/source offsets, 10 dtypes, C/F/strided/list sources, same/different context) satisfied byte-exact contracts; extracted copies independent, typed views aliasing exactly. Exhaustive only within that scope.",
        note="Sources of update_from_buffer are byte-format buffers; 0-d arrays excluded.", ref="2 C13"),
    "C04": dict(
        technique="runtime monitoring: allocation-log listener with stamped live regions (invariant at a hook)",
        text="Held on every event of the observed allocator histories (random walks + exhaustive small scope): "
             "bounds, alignment, disjointness and byte-stamp preservation are re-checked after each "
             "allocate/free/grow on real BufferNumpy/BufferByteArray objects, also on a buffer and its deepcopy/unpickled copy driven side by side (each audited after every event of the other). Exploration, not proof.",
        note="Trusted: the monitor's wrappers on XBuffer.allocate/free/grow see every request; histories are "
             "well-formed (only live regions freed).", ref="2 C04"),
    "C12": dict(
        technique="runtime monitoring: lock-step comparison with an executable first-fit free-list specification",
        text="Every allocator event of the observed histories is compared with a 40-line reference free list "
             "(first fit, coalescing, padding lost): placement, growth decision, capacity monotonicity, "
             "free() not raising, get_free() accounting, free-list equality. Exploration over histories.",
        note="Growth amount is taken from the implementation; zero-size requests judged only when a free "
             "interval exists.", ref="2 C12"),
    "C02": dict(
        technique="runtime monitoring: differential execution of the emitted C accessors (real ContextCpu/cffi call path, plus stand-alone clang ASan/UBSan build) against the Python view of the same object",
        text="Held on the observed calls: every generated get/getp/len/typeid/member function of every access path of each generated type, called for all sampled in-range index tuples on objects never placed at offset 0, returned the value, element address, length and member identity the Python accessors report, also after forced buffer growth between calls; with the strides stored in an array header overwritten by other values, C and a fresh Python view both follow the documented address expression.",
        note="The symbolic 'for all indices and all header contents at once' clause is decided only observationally (the objects actually built). Paths through a null reference are outside the domain.", ref="2 C02"),
    "C07": dict(
        technique="compiler sanitizers (clang-14 ASan+UBSan, -fno-sanitize-recover=all) on a stand-alone build of the emitted accessors over an exactly-sized malloc image, plus runtime monitoring of setters (whole-object re-read and byte diff after each call)",
        text="Held on the observed calls: each sampled C setter changed exactly the addressed leaf's bytes to the passed value (whole-object model re-read + buffer byte diff); the sanitizer builds executed every accessor with zero ASan/UBSan report blocks and the expected outputs.",
        note="ASan sees only accesses leaving the malloc'd image; intra-image errors are caught by the diff/compare oracle. cffi builds use -fwrapv, so signed overflow is judged in the stand-alone build only.", ref="2 C07"),
    "C08": dict(
        technique="runtime monitoring: history checker against an object-graph reference model (aliasing, nulls, live-region oracle from the shadow allocator) after every step",
        text="Held on the observed histories over Ref/UnionRef fields and array items: binding to a same-buffer object aliases it (offset equality, writes visible both ways), binding plain data or a foreign object creates an independent live object in the holder's buffer, null reads None / member index -1, every non-null reference resolves to a live object of the recorded member type, re-checked after forced growth.",
        note="Trusted: the Follower shadow's notion of live regions (offsets taken from the allocation log).", ref="2 C08"),
    "C09": dict(
        technique="runtime monitoring: reference-model comparison + allocation/write log extent disjointness + write-isolation probes on copies",
        text="Held on the observed copies (same buffer / other buffer / other context): copy equals the model, its writes lie in allocations made during the copy and away from the original, references resolve to live objects of the copy's buffer (same referent when shared, duplicate otherwise), writes to either side never show through the other.",
        note="Writes through a shared reference in the shared-buffer case are visible on both sides by design.", ref="2 C09"),
    "C10": dict(
        technique="runtime monitoring: history checker against a whole-object value model after every assignment (handles, fresh and stale views, growth interleaved)",
        text="Held on the observed assignment histories: after every step the whole root object and a neighbour re-read equal to the model with exactly the assigned element replaced; sizes, shapes and references unchanged.",
        note="Equal size = same shape for arrays, utf-8 length <= capacity at creation for strings.", ref="2 C10"),
    "C11": dict(
        technique="runtime monitoring: fault-injection workload (misuse attempts) with before/after observation of every live object and live byte extent",
        text="Held on the observed misuse attempts of every class: an exception was raised and all previously live objects re-read equal to their model and all previously live bytes were unchanged.",
        note="Negative indices are 'out of range' only on static-item arrays.", ref="2 C11"),
    "C14": dict(
        technique="runtime monitoring: emission-order oracle over sort_classes/assembled source for generated dependency graphs, plus real cffi+gcc builds",
        text="Held on the observed graphs: each class of the dependency closure emitted exactly once after its dependencies, each typedef guard once before first use, sampled real builds compile and run, _depends_on cycles raise.",
        note="Dependency closure is computed from the generator's own graph, not from the library.", ref="2 C14"),
    "C15": dict(
        technique="differential execution of emitted programs across target specialisations (cpu/opencl/cuda compiled on the host, clang OpenCL C front end for address-space checking, ASan/UBSan), sources obtained through the real GPU contexts via fake-device shims",
        text="Held on the observed types: identical accessor outputs across cpu_serial / opencl / cuda specialisations and the Python view; accessor bodies token-identical after deleting target qualifiers; the OpenCL form accepted under CL1.2 (any pointer losing __global is a hard error) and CL2.0; keyword-free forms accepted by the host compiler.",
        note="No GPU runtime exists here: vendor-compiler acceptance and device memory models are out of reach.", ref="2 C15"),
    "C16": dict(
        technique="runtime monitoring: per-index hit counters, target flag bits and guard zones inside generated vectorised kernels, executed through real ContextCpu and through fake-device shims driving the real launch-geometry code",
        text="Held on the observed kernels: every vectorised block body ran exactly once per index 0..n-1 (incl. n=0) on cpu_serial, cpu_openmp, opencl and cuda with the contexts' own launch geometry; context-restricted lines and includes active only where named; unannotated text passes through unchanged.",
        note="What a real CUDA runtime does with a zero-sized grid is not modelled.", ref="2 C16"),
    "C17": dict(
        technique="runtime monitoring: echo kernels (arguments returned / dereferenced by the callee) compared with byte-level expectations; call counter for refused calls",
        text="Held on the observed calls: scalar extremes bit-exact for 10 types, objects arrive as pointer to their first byte at any offset and after growth, numpy / xobject numeric arrays as pointer to first element, malformed calls refused before the C function ran.",
        note="Values offered for scalar arguments are representable in the declared C type.", ref="2 C17"),
    "C18": dict(
        technique="runtime monitoring: history checker comparing Python attribute == _xobject field == model for every tracked hybrid object after every step",
        text="Held on the observed histories over generated hybrid families: attributes mirror buffer data (also renamed), non-reference assignment stores an independent copy, reference assignment shares and is refused across buffers with nothing changed, copy independent, move relocates all nested dressed parts, forbidden moves raise.",
        note="A reference-to-hybrid attribute may come back bare after copy(); it is read through whichever representation it has.", ref="2 C18"),
    "C19": dict(
        technique="runtime monitoring: reference-model comparison of objects rebuilt from their dictionary / JSON forms (incl. real JSON text), with default-elision and omitted-key monitors",
        text="Held on the observed round trips: from_dict(to_dict()) equals the model field by field (Python and xobject views, renamed, nested, referenced), default-valued non-renamed numeric fields are omitted and omitted keys come back as defaults; T(x._to_json()) directly and through JSON text reproduces reference-free structs / 1-D arrays.",
        note="Elision asserted only for non-renamed numeric scalar / static array fields.", ref="2 C19"),
    "C20": dict(
        technique="runtime monitoring: reference-model comparison of unpickled objects, buffer-sharing relation check, write-isolation probes and an allocator walk with stamped regions on the unpickled buffers",
        text="Held on the observed groups: every unpickled object equals its model and is writable, independent of the original's buffer; sharing relation preserved exactly; unpickled buffers go on serving allocate/free/construct with disjoint, aligned, intact regions.",
        note="Classes are registered in a real module so that pickle can import them.", ref="2 C20"),
}
NOT_YET = {}

def main():
    props = [json.loads(l) for l in open(os.path.join(HERE, "properties.jsonl"))]
    checks, na = [], []
    for p in props:
        pid = p["id"]
        c = CHECKS.get(pid)
        if c is None:
            na.append(dict(property_id=pid, reason=NOT_YET.get(pid, "check not built yet in this round (runtime-monitoring design in DESIGN.md section 2)")))
            continue
        checks.append(dict(
            property_id=pid,
            quick_cmd=f"./check {pid} --tier quick",
            thorough_cmd=f"./check {pid} --tier thorough",
            evidence_file=f"/verif/evidence/{pid}.json",
            replay_cmd_template=f"./check {pid} --replay {{path}}",
            engine="xv",
            level_claimed=dict(category=c.get("category", "exploration"), text=c["text"], design_ref="DESIGN.md section " + c["ref"]),
            level_note=c["note"],
            technique=c["technique"],
        ))
    try:
        commits = subprocess.run(["git", "-C", "/repo", "log", "--format=%h %s"], capture_output=True, text=True).stdout.splitlines()
    except Exception:
        commits = []
    hook_commits = [c.split()[0] for c in commits if c.split(" ", 1)[1].startswith("verif-hook:")]
    man = dict(
        version=1,
        setup_cmd="/venv/bin/pip install -q --no-index --find-links /opt/veriftools/wheels --target /verif/.deps icontract",
        hooks=dict(guard="XOBJECTS_VERIF", enable="no in-source hooks: ./check sets XOBJECTS_VERIF=1 and attaches every monitor from outside (wrappers on the CPU buffer classes, icontract decorators, replaced cupy/pyopencl module globals); the library is imported from /repo's working tree via PYTHONPATH",
                   baseline_off_cmd=BASE_OFF, source_commits=hook_commits, add_only=True),
        engines=[dict(name="xv", path="/verif/xv", serves_properties=sorted(CHECKS), kind_free_text="runtime monitors (buffer event log, byte diff/poison, shadow allocator, icontract contracts, independent layout decoder, value model), C harness with clang ASan/UBSan, host-executed OpenCL/CUDA shims")],
        checks=checks,
        not_applicable=na,
        notes="Verdicts are three-valued: exit 0 held on what was observed, exit 1 + VIOLATION line, exit 3 + INCONCLUSIVE line (a deciding monitor was not reached). Known findings: /verif/known_findings.json.",
    )
    with open(os.path.join(HERE, "MANIFEST.json"), "w") as f:
        json.dump(man, f, indent=1)
    print("checks:", [c["property_id"] for c in checks], "n/a:", len(na))

if __name__ == "__main__":
    main()
