#!/usr/bin/env python3
"""Regenerates /verif/MANIFEST.json from the table below (kept in one place so the
manifest stays consistent with what is built)."""
import json, os, subprocess

HERE = os.path.dirname(os.path.dirname(os.path.abspath(__file__)))
BASE_OFF = ("cd /repo && /venv/bin/python -m pytest -ra -q -p no:cacheprovider --timeout=900 "
            "--continue-on-collection-errors")

CHECKS = {
    "C01": dict(
        technique="runtime monitoring: reference-model monitor (value model vs every accessor) over generated types, values, input forms and poisoned placements",
        text="Held on the observed executions: each generated object is re-read through every field/item/nested accessor, to_nplike/to_nparray/_to_dict/len/_shape and compared bit-exactly with the model value; byte-exact icontract contracts on the copy primitives ride along. Exploration bounded by depth/extent.",
        note="Trusted: numpy scalar conversions; the harness' domain restrictions listed in the evidence assumptions.", ref="2 C01"),
    "C03": dict(
        technique="runtime monitoring: write log + whole-buffer byte diff against reserved extents (allocation log, independent decoder's extent tree)",
        text="Held on the observed constructions and fitting assignments: every logged primitive write and every changed byte lies in the reserved extent or an allocation made during the operation; reported/allocated/documented/decoded sizes agree; extent tree nesting and sibling disjointness; stamped neighbours intact.",
        note="Trusted: wrappers on the buffer primitives see all library writes; writes through to_nplike views are caught by the byte diff only.", ref="2 C03"),
    "C05": dict(
        technique="runtime monitoring: independent observer (decoder written from the format documents only) over raw bytes of generated objects",
        text="Held on the observed objects: a decoder that shares no code or class attributes with the library recovers the model value from the raw buffer bytes with no format violation.", 
        note="Where types.rst and the property text disagree on Ref encoding, the property text wins. Padding bytes are not inspected.", ref="2 C05"),
    "C06": dict(
        technique="runtime monitoring: differential observation of constructor handle vs _from_buffer view (model comparison, structural attributes, cross write/read)",
        text="Held on the observed objects: root and every nested compound compared between handle, view-through-handle and fresh view; writes through one side read back through the other.",
        note="Internal caches (_offsets) are not compared, only observable attributes (_offset,_shape,_strides,_size,len) and values.", ref="2 C06"),
    "C13": dict(
        technique="runtime contracts (icontract pre/postconditions with whole-buffer snapshots) under small-scope exhaustive enumeration",
        text="Every primitive call of the enumerated scope (both buffer kinds, capacity<=12/20, all offsets/lengths/source offsets, 10 dtypes, C/F/strided/list sources, same/different context) satisfied byte-exact contracts; extracted copies independent, typed views aliasing exactly. Exhaustive only within that scope.",
        note="Sources of update_from_buffer are byte-format buffers; 0-d arrays excluded.", ref="2 C13"),
    "C04": dict(
        technique="runtime monitoring: allocation-log listener with stamped live regions (invariant at a hook)",
        text="Held on every event of the observed allocator histories (random walks + exhaustive small scope): "
             "bounds, alignment, disjointness and byte-stamp preservation are re-checked after each "
             "allocate/free/grow on real BufferNumpy/BufferByteArray objects. Exploration, not proof.",
        note="Trusted: the monitor's wrappers on XBuffer.allocate/free/grow see every request; histories are "
             "well-formed (only live regions freed).", ref="2 C04"),
    "C12": dict(
        technique="runtime monitoring: lock-step comparison with an executable first-fit free-list specification",
        text="Every allocator event of the observed histories is compared with a 40-line reference free list "
             "(first fit, coalescing, padding lost): placement, growth decision, capacity monotonicity, "
             "free() not raising, get_free() accounting, free-list equality. Exploration over histories.",
        note="Growth amount is taken from the implementation; zero-size requests judged only when a free "
             "interval exists.", ref="2 C12"),
}
NOT_YET = {}

def main():
    props = [json.loads(l) for l in open(os.path.join(HERE, "properties.jsonl"))]
    checks, na = [], []
    for p in props:
        pid = p["id"]
        c = CHECKS.get(pid)
        if c is None:
            na.append(dict(property_id=pid, reason=NOT_YET.get(pid, "check not built yet in this round (runtime-monitoring design in DESIGN.md section 2)")))
            continue
        checks.append(dict(
            property_id=pid,
            quick_cmd=f"./check {pid} --tier quick",
            thorough_cmd=f"./check {pid} --tier thorough",
            evidence_file=f"/verif/evidence/{pid}.json",
            replay_cmd_template=f"./check {pid} --replay {{path}}",
            engine="xv",
            level_claimed=dict(category=c.get("category", "exploration"), text=c["text"], design_ref="DESIGN.md section " + c["ref"]),
            level_note=c["note"],
            technique=c["technique"],
        ))
    try:
        commits = subprocess.run(["git", "-C", "/repo", "log", "--format=%h %s"], capture_output=True, text=True).stdout.splitlines()
    except Exception:
        commits = []
    hook_commits = [c.split()[0] for c in commits if c.split(" ", 1)[1].startswith("verif-hook:")]
    man = dict(
        version=1,
        setup_cmd="/venv/bin/pip install -q --no-index --find-links /opt/veriftools/wheels --target /verif/.deps icontract",
        hooks=dict(guard="XOBJECTS_VERIF", enable="no in-source hooks: ./check sets XOBJECTS_VERIF=1 and attaches every monitor from outside (wrappers on the CPU buffer classes, icontract decorators, replaced cupy/pyopencl module globals); the library is imported from /repo's working tree via PYTHONPATH",
                   baseline_off_cmd=BASE_OFF, source_commits=hook_commits, add_only=True),
        engines=[dict(name="xv", path="/verif/xv", serves_properties=sorted(CHECKS), kind_free_text="runtime monitors (buffer event log, byte diff/poison, shadow allocator, icontract contracts, independent layout decoder, value model), C harness with clang ASan/UBSan, host-executed OpenCL/CUDA shims")],
        checks=checks,
        not_applicable=na,
        notes="Verdicts are three-valued: exit 0 held on what was observed, exit 1 + VIOLATION line, exit 3 + INCONCLUSIVE line (a deciding monitor was not reached). Known findings: /verif/known_findings.json.",
    )
    with open(os.path.join(HERE, "MANIFEST.json"), "w") as f:
        json.dump(man, f, indent=1)
    print("checks:", [c["property_id"] for c in checks], "n/a:", len(na))

if __name__ == "__main__":
    main()
