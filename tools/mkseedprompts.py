#!/usr/bin/env python3
"""tools/mkseedprompts.py ROUND_DIR — write one self-contained prompt per property for an independent seeding round.

Creates a scratch worktree of /repo per property under ROUND_DIR (outside /repo and /verif; remove each with
`git -C /repo worktree remove --force <dir>` when its changes have been confirmed and filed) and ROUND_DIR/<id>.prompt.txt.
The sub-agent gets the property text, its worktree and one-line descriptions of the ideas of earlier rounds (so that it looks
elsewhere) — nothing about how the checks work."""
import glob
import json
import os
import subprocess
import sys

HERE = os.path.dirname(os.path.dirname(os.path.abspath(__file__)))
T = """You are working on the Python library xsuite/xobjects (binary in-buffer layouts: struct/array/string/ref/unionref; a first-fit buffer allocator; a C accessor-API generator for CPU/OpenCL/CUDA kernels).

Your private working copy is the git worktree at {wt} (detached HEAD). Work ONLY inside {wt}. Do not read, list or modify /repo, /verif or any other directory under {rd}. Do not commit anything. NEVER use `git stash` (the stash is shared between worktrees of one repository and other people use it): to get back to the clean tree use `git diff > {wt}/seed_out/k/patch.diff` and then `git checkout -- xobjects`; to re-apply use `git apply`. There is no network.

How to run things against your working copy (an editable install elsewhere must be overridden, so always set PYTHONPATH):
  cd {wt} && PYTHONPATH={wt} /venv/bin/python -m pytest -q -p no:cacheprovider --timeout=900 tests      # 163 tests pass on the unchanged tree (~30-45 s)
  cd {wt} && PYTHONPATH={wt} /venv/bin/python your_script.py
(The tests drop generated *.c files in the cwd; they are git-ignored, ignore them.)

PROPERTY (a semantic property the library is supposed to satisfy):

{prop}

TASK: act as a realistic source of regressions. Produce changes to the library source (files under {wt}/xobjects/) that BREAK this property while
  (a) the library still imports and generated C still compiles,
  (b) the complete existing test-suite (command above) still passes with the change applied, and
  (c) the change looks like something a maintainer could plausibly write (a refactoring slip, an "optimisation", an off-by-one, a wrong variable, a missing case, two sites that each look fine alone, a numeric/type conversion subtlety, an error-handling path) - not sabotage that is obvious at a glance, and not a change that merely disables or deletes a feature wholesale.
Most important: the break must need something SPECIFIC to manifest - a particular input shape or value, a multi-step sequence of operations, an unusual placement inside the buffer, a particular axis order, nesting depth, numeric type or value range, option or keyword rarely used (e.g. `_offset='packed'`, `grow_step`, `default_alignment`, `readonly`, `default_factory`, `_rename`, `_depends_on`, `_skip_in_to_dict`, `String.fixed`, `omp_num_threads`, `save_source_as`, pickle protocol ...), two cooperating code sites, a particular order of calls in one process, an exception path, etc. A change that ordinary, simple use of the library would expose immediately is NOT wanted.

Earlier rounds already produced the following changes for this property. Do NOT repeat these ideas or close variants of them. Look for code sites, clauses of the property statement, options and triggers that none of them touches; prefer sites OUTSIDE the functions they touched:
{done}

Produce up to THREE different such changes, touching different mechanisms / code sites where possible, and covering different clauses of the property statement. For each change k in 1..3 create the directory {wt}/seed_out/k/ containing:
  patch.diff  - `git diff` of the library change only (must apply with `git apply` on the clean worktree; only files under xobjects/)
  demo.py     - a small stand-alone program demonstrating the break: it must exit 0 on the UNCHANGED tree and exit non-zero (assertion failure with a clear message) with the change applied. It must not depend on incidental details that are not part of the property (exact byte positions of independent allocations, exact capacities, exact error messages). Run as: cd {wt} && PYTHONPATH={wt} /venv/bin/python seed_out/k/demo.py
  notes.md    - 5-15 lines: what the change is, which part of the property it breaks, exactly what is needed for it to manifest, and why the existing tests do not notice.

You MUST verify each change yourself before reporting it: (1) with the patch applied the full test-suite passes (163 passed); (2) with the patch applied demo.py fails; (3) on the clean tree (git checkout -- xobjects) demo.py passes. Leave the worktree CLEAN at the end (git checkout -- xobjects; the seed_out/ directory stays, untracked). If a candidate change makes any existing test fail, discard or refine it. If you cannot find three good ones, deliver fewer rather than weak or repeated ones. Read the library source to find good sites; first understand how the feature works on the unchanged tree.

Final answer: for each change, one short paragraph: file/function changed, the idea, what is needed to trigger it, and the verification results.
"""


def main():
    rd = os.path.abspath(sys.argv[1])
    assert not rd.startswith("/repo") and not rd.startswith(HERE)
    os.makedirs(rd, exist_ok=True)
    props = {json.loads(l)["id"]: json.loads(l) for l in open(os.path.join(HERE, "properties.jsonl"))}
    for pid, d in props.items():
        wt = os.path.join(rd, pid)
        if not os.path.exists(wt):
            subprocess.run(["git", "-C", "/repo", "worktree", "add", "-q", "--detach", wt, "HEAD"], check=True)
        done = []
        for sd in sorted(glob.glob(os.path.join(HERE, "seeded", pid + "-*"))):
            m = json.load(open(sd + "/meta.json"))
            notes = [l.strip() for l in m.get("needs_to_manifest", "").splitlines() if l.strip() and not l.startswith("#")]
            done.append(f"  - ({', '.join(m.get('files', []))}) " + " ".join(notes[:3])[:300])
        open(os.path.join(rd, pid + ".prompt.txt"), "w").write(
            T.format(wt=wt, rd=rd, prop=f"{pid} — {d['title']}\n\n{d['statement']}\n", done="\n".join(done)))
    print("prompts in", rd)


if __name__ == "__main__":
    main()
