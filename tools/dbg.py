#!/usr/bin/env python3
"""tools/dbg.py CNN <case_seed|replay.json> — run one case in-process and print what was recorded."""
import sys, os, json, random
sys.path.insert(0, os.path.dirname(os.path.dirname(os.path.abspath(__file__))))
import xv
from xv import runner
import importlib
pid, cs = sys.argv[1], sys.argv[2]
tier = sys.argv[3] if len(sys.argv) > 3 else "quick"
if cs.endswith(".json"):
    cs = json.load(open(cs))["case_seed"]
os.environ["XOBJECTS_VERIF"] = "1"
mod = importlib.import_module(f"xv.props.{pid.lower()}")
_, seed, shard, i = cs.split("/")
w = runner.Worker(pid, tier, int(seed), int(shard), 16)
if hasattr(mod, "setup"): mod.setup(w)
w.case_seed = cs
try:
    mod.run_case(w, random.Random(cs))
except runner.CaseAbort:
    pass
for v in w.violations:
    print("MECH", v["mech"]); print(v["msg"]); print(json.dumps(v["case"])[:3000])
print("counters", w.counters)
