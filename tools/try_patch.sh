#!/bin/sh
# tools/try_patch.sh <patch> <PID>...  — apply a patch to a scratch worktree of /repo, run the quick checks against it, remove it
P=$1; shift
D=$(mktemp -d /tmp/xvtry.XXXXXX)
git -C /repo worktree add -q --detach $D/wt HEAD || exit 2
git -C $D/wt apply "$P" || { echo "PATCH DOES NOT APPLY"; git -C /repo worktree remove --force $D/wt; rm -rf $D; exit 2; }
for pid in "$@"; do
  XV_REPO=$D/wt /verif/check $pid --tier quick --no-evidence 2>&1 | grep -E "mechanism=|^HELD|^INCONCLUSIVE|^VIOLATION" | cut -c1-400 | head -${XV_LINES:-8}
done
git -C /repo worktree remove --force $D/wt; rm -rf $D
