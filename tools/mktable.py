#!/usr/bin/env python3
"""tools/mktable.py — rewrites the block between <!-- SELFTEST:BEGIN --> and <!-- SELFTEST:END --> in DESIGN.md from
selftest_results.json and seeded/*/meta.json (which checks catch which changes)."""
import glob, json, os, re
HERE = os.path.dirname(os.path.dirname(os.path.abspath(__file__)))
res = json.load(open(os.path.join(HERE, "selftest_results.json")))
kf = {f["commit"]: f for f in json.load(open(os.path.join(HERE, "known_findings.json")))["findings"] if f.get("commit")}
rows = []
for name in sorted(res):
    r = res[name]
    what = ""
    if name.startswith("seeded/"):
        mp = os.path.join(HERE, name, "meta.json")
        if os.path.exists(mp):
            m = json.load(open(mp))
            what = ", ".join(m.get("files", []))
            first = (m.get("needs_to_manifest", "").strip().splitlines() or [""])
            first = [l for l in first if l.strip() and not l.startswith("#")]
            what += " — " + (first[0][:140] if first else "")
    elif name.startswith("revert:"):
        what = kf.get(name[7:], {}).get("what", "")[:170]
    caught = [p for p, c in r.get("checks", {}).items() if c["rc"] == 1]
    if name.startswith("seeded/") and os.path.exists(os.path.join(HERE, name, "meta.json")) and json.load(open(os.path.join(HERE, name, "meta.json"))).get("obsolete"):
        caught = ["(obsolete on the current tree, see meta.json)"] + caught
    other = [f"{p}:rc{c['rc']}" for p, c in r.get("checks", {}).items() if c["rc"] != 1]
    suite = r.get("suite")
    rows.append(f"| `{name}` | {'pass' if suite and suite['rc'] == 0 else ('FAILS' if suite else 'n/a')} | "
                f"{', '.join(caught) or '**none**'}{(' (' + ', '.join(other) + ')') if other else ''} | "
                f"{'; '.join(m.split(' x')[0] for c in r.get('checks', {}).values() for m in c['mechanisms'][:2])[:160].replace('|', '¦')} | {what.replace('|', '/')} |")
tbl = ("| change | repo suite with it | caught by (quick tier) | first mechanisms reported | what it is |\n|---|---|---|---|---|\n" + "\n".join(rows))
p = os.path.join(HERE, "DESIGN.md")
s = open(p).read()
fx = [f for f in json.load(open(os.path.join(HERE, "known_findings.json")))["findings"] if f.get("status") == "fixed"]
ftab = ("| prop | fix commit | mechanism key reported by the check when the fix is reverted | what failed |\n|---|---|---|---|\n"
        + "\n".join(f"| {f['property']} | `{f['commit']}` | `{f['mechanism'].replace('|', '¦')}` | {f['what'].split(' ', 3)[3].replace('|', '/')} |" for f in fx))
s = re.sub(r"<!-- FIXES:BEGIN -->.*<!-- FIXES:END -->", lambda m: "<!-- FIXES:BEGIN -->\n" + ftab + "\n<!-- FIXES:END -->", s, flags=re.S)
s = re.sub(r"<!-- SELFTEST:BEGIN -->.*<!-- SELFTEST:END -->", lambda m: "<!-- SELFTEST:BEGIN -->\n" + tbl + "\n<!-- SELFTEST:END -->", s, flags=re.S)
open(p, "w").write(s)
print(len(rows), "rows")
