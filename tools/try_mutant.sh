#!/bin/sh
# tools/try_mutant.sh <patch-file | revert:<commit>> <CNN> [more check args]
# Applies the change to a scratch worktree of /repo (outside /repo and /verif), runs ./check there, removes it.
M="$1"; shift
D=$(mktemp -d /tmp/xvmut.XXXXXX)
git -C /repo worktree add -q --detach "$D/wt" HEAD || exit 2
case "$M" in
  revert:*) git -C "$D/wt" revert -n "${M#revert:}" >/dev/null 2>&1 || { echo "revert failed"; git -C /repo worktree remove --force "$D/wt"; rm -rf "$D"; exit 2; } ;;
  *) case "$M" in /*) ;; *) M="$PWD/$M";; esac; git -C "$D/wt" apply "$M" || { echo "patch failed"; git -C /repo worktree remove --force "$D/wt"; rm -rf "$D"; exit 2; } ;;
esac
XV_REPO="$D/wt" /verif/check "$@" --no-evidence
rc=$?
git -C /repo worktree remove --force "$D/wt"; rm -rf "$D"
echo "mutant rc=$rc"
exit $rc
