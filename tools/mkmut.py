#!/usr/bin/env python3
"""tools/mkmut.py <name> <file-relative-to-repo> <old> <new> : writes mutants/<name>.patch (textual replacement, first occurrence)"""
import sys, subprocess, tempfile, os, shutil
name, rel, old, new = sys.argv[1:5]
d = tempfile.mkdtemp(prefix="xvmk")
try:
    subprocess.run(["git", "-C", "/repo", "worktree", "add", "-q", "--detach", d + "/wt", "HEAD"], check=True)
    p = os.path.join(d, "wt", rel)
    s = open(p).read()
    old = old.encode().decode("unicode_escape"); new = new.encode().decode("unicode_escape")
    assert old in s, "old text not found"
    open(p, "w").write(s.replace(old, new, 1))
    diff = subprocess.run(["git", "-C", d + "/wt", "diff"], capture_output=True, text=True).stdout
    open(f"/verif/mutants/{name}.patch", "w").write(diff)
    print(diff)
finally:
    subprocess.run(["git", "-C", "/repo", "worktree", "remove", "--force", d + "/wt"])
    shutil.rmtree(d, ignore_errors=True)
