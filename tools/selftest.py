#!/usr/bin/env python3
"""tools/selftest.py [--suite] [--only SUBSTR] [--tier quick] — E8 self-test of the monitors.

For every committed property-breaking change
  * mutants/cNN_*.patch              (hand-written mutants; owner = CNN from the file name)
  * seeded/<name>/patch.diff         (changes written by independent sub-agents; owner(s) from meta.json)
  * revert of every `fix:` commit    (known_findings.json entries with status "fixed")
the change is applied to a scratch worktree of /repo (under a fresh temp dir, removed afterwards), optionally the
repository's own suite is run there (--suite; must still pass), and the owning check is run with XV_REPO pointing
at the worktree.  Expected: exit 1 with a VIOLATION line.  Results -> selftest_results.json (not evidence).
"""
import argparse
import glob
import json
import os
import re
import shutil
import subprocess
import sys
import tempfile
import time

HERE = os.path.dirname(os.path.dirname(os.path.abspath(__file__)))
SUITE = ["/venv/bin/python", "-m", "pytest", "-q", "-p", "no:cacheprovider", "--timeout=900", "-x", "tests"]


FALLBACK = ["C11", "C10", "C09", "C05", "C01", "C06", "C08", "C03", "C07", "C02", "C13", "C04", "C12", "C18", "C19", "C20",
            "C14", "C15", "C16", "C17"]


def sh(cmd, **kw):
    return subprocess.run(cmd, capture_output=True, text=True, **kw)


def items():
    out = []
    for p in sorted(glob.glob(os.path.join(HERE, "mutants", "*.patch"))):
        m = re.match(r"c(\d+)_", os.path.basename(p))
        if "_unfix_" in os.path.basename(p):
            continue  # listed through known_findings.json (revert:<commit>)
        out.append(dict(name="mutants/" + os.path.basename(p), kind="patch", path=p, props=[f"C{int(m.group(1)):02d}"]))
    for d in sorted(glob.glob(os.path.join(HERE, "seeded", "*"))):
        mp = os.path.join(d, "meta.json")
        if not os.path.exists(mp):
            continue
        meta = json.load(open(mp))
        if meta.get("obsolete"):
            continue
        props = [meta["property"]] + [x for x in meta.get("caught_by", []) if x != meta["property"]]
        out.append(dict(name="seeded/" + os.path.basename(d), kind="patch", path=os.path.join(d, "patch.diff"),
                        props=props, expect_miss=meta.get("expect_miss", False)))
    kf = json.load(open(os.path.join(HERE, "known_findings.json")))["findings"]
    for f in kf:
        if f.get("status") == "fixed":
            if f.get("unfix_patch"):
                # later fixes touched the same lines, `git revert` no longer applies: hand-ported reverse patch
                out.append(dict(name=f"revert:{f['commit']}", kind="patch", path=os.path.join(HERE, f["unfix_patch"]),
                                props=[f["property"]]))
                continue
            out.append(dict(name=f"revert:{f['commit']}", kind="revert", commit=f["commit"], props=[f["property"]],
                            also=f.get("revert_with", [])))
    return out


def main():
    ap = argparse.ArgumentParser()
    ap.add_argument("--suite", action="store_true")
    ap.add_argument("--only", default=None)
    ap.add_argument("--exact", action="store_true", help="--only names exactly one change")
    ap.add_argument("--tier", default="quick")
    ap.add_argument("--fallback", action="store_true", help="when the owning check misses, try the others one by one")
    ap.add_argument("--out", default=os.path.join(HERE, "selftest_results.json"))
    a = ap.parse_args()
    results = {}
    if os.path.exists(a.out):
        results = json.load(open(a.out))
    for it in items():
        if a.only and a.exact and a.only != it["name"]:
            continue
        if a.only and a.only not in it["name"] and a.only not in it["props"]:
            continue
        d = tempfile.mkdtemp(prefix="xvself")
        wt = os.path.join(d, "wt")
        rec = dict(props=it["props"], checks={}, suite=None)
        try:
            r = sh(["git", "-C", "/repo", "worktree", "add", "-q", "--detach", wt, "HEAD"])
            if r.returncode:
                rec["error"] = "worktree: " + r.stderr[-300:]
                continue
            if it["kind"] == "patch":
                r = sh(["git", "-C", wt, "apply", it["path"]])
            else:
                for c in list(it.get("also", [])) + [it["commit"]]:
                    r = sh(["git", "-C", wt, "revert", "-n", c])
                    if r.returncode:
                        break
            if r.returncode:
                rec["error"] = "does not apply: " + (r.stderr or r.stdout)[-300:]
                continue
            if a.suite:
                env = dict(os.environ, PYTHONPATH=wt)
                env.pop("XOBJECTS_VERIF", None)
                r = sh(SUITE, cwd=wt, env=env)
                tail = (r.stdout.strip().splitlines() or [""])[-1]
                rec["suite"] = dict(rc=r.returncode, tail=tail)
            plist = list(it["props"])
            i_ = 0
            while i_ < len(plist):
                pid = plist[i_]
                i_ += 1
                t0 = time.time()
                env = dict(os.environ, XV_REPO=wt)
                r = sh([os.path.join(HERE, "check"), pid, "--tier", a.tier, "--no-evidence"], env=env)
                mechs = re.findall(r"mechanism=(\S+) occurrences=(\d+)", r.stdout)
                rec["checks"][pid] = dict(rc=r.returncode, wall=round(time.time() - t0, 1),
                                          mechanisms=[f"{m} x{n}" for m, n in mechs[:6]],
                                          inconclusive=re.findall(r"INCONCLUSIVE.*", r.stdout)[:2])
                if a.fallback and i_ == len(plist) and not any(c["rc"] == 1 for c in rec["checks"].values()):
                    # nobody caught it so far: try the other checks, most general object-level ones first
                    for q in FALLBACK:
                        if q not in plist:
                            plist.append(q)
                            break
        finally:
            sh(["git", "-C", "/repo", "worktree", "remove", "--force", wt])
            shutil.rmtree(d, ignore_errors=True)
            results[it["name"]] = rec
            caught = [p for p, c in rec["checks"].items() if c["rc"] == 1]
            print(f"{it['name']:45s} suite={rec['suite']['rc'] if rec['suite'] else '-'} "
                  f"caught_by={caught} {rec.get('error', '')} "
                  + "; ".join(f"{p}:rc{c['rc']}:{c['wall']}s" for p, c in rec["checks"].items()), flush=True)
            with open(a.out, "w") as f:
                json.dump(results, f, indent=1, sort_keys=True)
    sh(["git", "-C", "/repo", "worktree", "prune"])


if __name__ == "__main__":
    main()
