"""xv — runtime-monitoring machinery for xsuite/xobjects (see /verif/DESIGN.md).

Importing this package puts the repository under test (XV_REPO, default /repo)
first on sys.path, so `import xobjects` always resolves to the current working
tree of that checkout and never to a cached or installed copy.
"""
import os
import sys

VERIF_DIR = os.path.dirname(os.path.dirname(os.path.abspath(__file__)))
REPO = os.path.abspath(os.environ.get("XV_REPO", "/repo"))
DEPS = os.path.join(VERIF_DIR, ".deps")

for p in (DEPS, VERIF_DIR, REPO):
    if p in sys.path:
        sys.path.remove(p)
sys.path.insert(0, DEPS)
sys.path.insert(0, VERIF_DIR)
sys.path.insert(0, REPO)

GUARD = "XOBJECTS_VERIF"
