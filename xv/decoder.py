"""E3 — independent decoder of the documented binary layout.

Written only from Architecture.md, docs/architecture/types.rst and the text of
property C05.  It never imports Field.offset, _strides, _data_offset or any
reader of the library: input is the type AST (xv.typegen), raw bytes and a
start offset; output is the decoded value (same model representation as
xv.typegen), an extent tree and a list of format violations.
"""
import struct as _struct

import numpy as np

from xv.typegen import AVal, DT

NULLVALUE = -(2 ** 63)


def slot(n):
    return (n + 7) // 8 * 8


def is_static(t):
    k = t["k"]
    if k in ("sc", "ref", "ur"):
        return True
    if k == "str":
        return False
    if k == "st":
        return all(is_static(f[1]) for f in t["f"])
    return all(d is not None for d in t["dims"]) and is_static(t["it"])


def static_size(t):
    k = t["k"]
    if k == "sc":
        return DT[t["t"]].itemsize
    if k == "ref":
        return 8
    if k == "ur":
        return 16
    if k == "st":
        return sum(slot(static_size(f[1])) for f in t["f"])
    if k == "ar":
        n = static_size(t["it"])
        for d in t["dims"]:
            n *= d
        return slot(n)
    raise ValueError("dynamic")


def implied_strides(shape, order, itemsize):
    """order[0] is the slowest varying axis in memory."""
    nd = len(shape)
    st = [0] * nd
    acc = itemsize
    for ax in reversed(order):
        st[ax] = acc
        acc *= shape[ax]
    return st


def plan_size(t, mv):
    """Size an object of type t holding model value mv occupies per the documents."""
    k = t["k"]
    if is_static(t):
        return static_size(t)
    if k == "str":
        if hasattr(mv, "cap"):  # created from a capacity: the stored size is 8 + capacity, unrounded
            return 8 + mv.cap
        return 8 + slot(len(mv.encode("utf8")) + 1)
    if k == "st":
        n = 8
        ndyn = 0
        for fn, ft in t["f"]:
            if is_static(ft):
                n += slot(static_size(ft))
            else:
                ndyn += 1
                n += slot(plan_size(ft, mv[fn]))
        return n + 8 * (ndyn - 1)
    if k == "ar":
        nd = len(t["dims"])
        ldyn = sum(1 for d in t["dims"] if d is None)
        n = 8 + 8 * ldyn + (8 * nd if (nd > 1 and ldyn > 0) else 0)
        cnt = int(np.prod(mv.shape)) if len(mv.shape) else 1
        if is_static(t["it"]):
            return slot(n + cnt * static_size(t["it"]))
        n += 8 * cnt
        for v in mv.items.values():
            n += slot(plan_size(t["it"], v))  # every item starts on a slot boundary
        return slot(n)
    raise ValueError(k)


class Ext:
    __slots__ = ("start", "size", "label", "kind", "children", "slot_part")

    def __init__(self, start, size, label, kind, slot_part=True):
        self.start, self.size, self.label, self.kind = start, size, label, kind
        self.children = []
        self.slot_part = slot_part  # must this part start on a slot boundary?

    @property
    def end(self):
        return self.start + self.size

    def flat(self):
        yield self
        for c in self.children:
            yield from c.flat()


class Decoder:
    def __init__(self, raw):
        self.raw = raw
        self.errs = []  # (kind, label, detail)
        self.targets = []  # Ext of reference targets (separate allocations)
        self.depth = 0

    def err(self, kind, label, detail=""):
        if len(self.errs) < 30:
            self.errs.append((kind, label, detail))

    def i64(self, off, label):
        if off < 0 or off + 8 > len(self.raw):
            self.err("read-outside-buffer", label, f"int64 at {off}")
            raise _Stop()
        return _struct.unpack_from("<q", self.raw, off)[0]

    def decode(self, t, off, label="root"):
        """-> (model value, Ext)"""
        self.depth += 1
        if self.depth > 60:
            self.err("too-deep", label)
            raise _Stop()
        try:
            return getattr(self, "d_" + t["k"])(t, off, label)
        finally:
            self.depth -= 1

    def d_sc(self, t, off, label):
        dt = DT[t["t"]]
        if off < 0 or off + dt.itemsize > len(self.raw):
            self.err("read-outside-buffer", label, f"{t['t']} at {off}")
            raise _Stop()
        v = np.frombuffer(self.raw, dtype=dt, count=1, offset=off)[0]
        return v, Ext(off, dt.itemsize, label, "sc", slot_part=False)

    def d_str(self, t, off, label):
        size = self.i64(off, label)
        if size < 9 or off + size > len(self.raw):
            self.err("string-bad-size", label, f"size word {size} at {off}")
            raise _Stop()
        # (the size of a string created from a capacity is 8 + capacity and need not be a multiple of 8;
        # what must hold is that the parts around it start on slot boundaries, checked by the parents)
        data = self.raw[off + 8:off + size]
        nul = data.find(b"\x00")
        if nul < 0:
            self.err("string-not-nul-terminated", label, f"{bytes(data[:24])!r}")
            nul = len(data)
        try:
            s = bytes(data[:nul]).decode("utf8")
        except UnicodeDecodeError:
            self.err("string-not-utf8", label, f"{bytes(data[:24])!r}")
            s = None
        return s, Ext(off, size, label, "str")

    def d_st(self, t, off, label):
        fields = t["f"]
        if is_static(t):
            ext = Ext(off, static_size(t), label, "st")
            pos = off
            val = {}
            for fn, ft in fields:
                v, e = self.decode(ft, pos, f"{label}.{fn}")
                e.slot_part = True
                val[fn] = v
                ext.children.append(e)
                pos += slot(static_size(ft))
            return val, ext
        size = self.i64(off, label)
        if size < 8 or off + size > len(self.raw):
            self.err("struct-bad-size", label, f"size word {size}")
            raise _Stop()
        ext = Ext(off, size, label, "st")
        pos = off + 8
        val = {}
        dyn = []
        for fn, ft in fields:
            if is_static(ft):
                v, e = self.decode(ft, pos, f"{label}.{fn}")
                e.slot_part = True
                val[fn] = v
                ext.children.append(e)
                pos += slot(static_size(ft))
            else:
                dyn.append((fn, ft))
        table = pos
        pos += 8 * (len(dyn) - 1)
        first_dyn = pos
        for i, (fn, ft) in enumerate(dyn):
            if i == 0:
                foff = first_dyn
            else:
                rel = self.i64(table + 8 * (i - 1), f"{label}.{fn}")
                foff = off + rel
                if not (first_dyn <= foff < off + size):
                    self.err("dynamic-field-offset-outside-struct", f"{label}.{fn}", f"rel {rel}")
                    raise _Stop()
            v, e = self.decode(ft, foff, f"{label}.{fn}")
            val[fn] = v
            ext.children.append(e)
        return val, ext

    def d_ar(self, t, off, label):
        dims, order, it = t["dims"], list(t["ord"]), t["it"]
        nd = len(dims)
        st_item = is_static(it)
        isz = static_size(it) if st_item else 8
        ldyn = [i for i, d in enumerate(dims) if d is None]
        pos = off
        if is_static(t):
            shape = list(dims)
            size = static_size(t)
        else:
            size = self.i64(pos, label)
            pos += 8
            if size < 8 or off + size > len(self.raw):
                self.err("array-bad-size", label, f"size word {size}")
                raise _Stop()
            shape = list(dims)
            for i in ldyn:
                shape[i] = self.i64(pos, label)
                pos += 8
                if shape[i] < 0 or shape[i] > 1 << 20:
                    self.err("array-bad-dim", label, f"dim {i} = {shape[i]}")
                    raise _Stop()
        ext = Ext(off, size, label, "ar")
        want = implied_strides(shape, order, isz)
        if ldyn and nd > 1:
            stored = [self.i64(pos + 8 * i, label) for i in range(nd)]
            pos += 8 * nd
            if 0 not in shape and stored != want:
                self.err("stored-strides-differ-from-declared-order", label, f"stored {stored} implied {want} shape {shape} order {order}")
            strides = stored if 0 not in shape else want
        else:
            strides = want
        data = pos
        cnt = 1
        for s in shape:
            cnt *= s
        if cnt > 5000:
            self.err("array-too-large", label, f"{shape}")
            raise _Stop()
        items = {}
        if (data - off) % 8:
            self.err("part-not-on-slot-boundary", label + "[data]", f"data area at +{data - off}")
        for idx in np.ndindex(*shape):
            p = data + sum(i * s for i, s in zip(idx, strides))
            lab = f"{label}{list(idx)}"
            if st_item:
                if not (data <= p and p + isz <= off + size):
                    self.err("item-outside-array-extent", lab, f"at {p}, array [{off},{off + size})")
                    raise _Stop()
                v, e = self.decode(it, p, lab)
                e.slot_part = it["k"] != "sc" and False  # items are packed at item size
            else:
                if not (data <= p and p + 8 <= data + 8 * cnt):
                    self.err("table-entry-outside-table", lab, f"entry at {p}")
                    raise _Stop()
                rel = self.i64(p, lab)
                ip = off + rel
                if not (data + 8 * cnt <= ip < off + size):
                    self.err("item-offset-outside-array", lab, f"rel {rel}, array size {size}")
                    raise _Stop()
                v, e = self.decode(it, ip, lab)
                e.slot_part = True
            items[idx] = v
            ext.children.append(e)
        return AVal(shape, items), ext

    def d_ref(self, t, off, label):
        rel = self.i64(off, label)
        ext = Ext(off, 8, label, "ref", slot_part=False)
        if rel == NULLVALUE:
            return None, ext
        v, e = self.decode(t["to"], off + rel, label + "->")
        self.targets.append(e)
        return v, ext

    def d_ur(self, t, off, label):
        rel = self.i64(off, label)
        tid = self.i64(off + 8, label)
        ext = Ext(off, 16, label, "ur", slot_part=False)
        if rel == NULLVALUE:
            if tid != -1:
                self.err("null-unionref-member-index-not-minus-1", label, f"typeid {tid}")
            return None, ext
        if not (0 <= tid < len(t["m"])):
            self.err("unionref-bad-member-index", label, f"typeid {tid}")
            raise _Stop()
        v, e = self.decode(t["m"][tid], off + rel, label + f"->{tid}")
        self.targets.append(e)
        return (tid, v), ext


class _Stop(Exception):
    pass


def decode(t, raw, off):
    """-> (value or None, Ext or None, errors, target extents)"""
    d = Decoder(raw)
    try:
        v, e = d.decode(t, off)
    except _Stop:
        return None, None, d.errs, d.targets
    # structural checks on the extent tree(s)
    for root in [e] + d.targets:
        _check_tree(d, root, root.start)
    return v, e, d.errs, d.targets


def _check_tree(d, ext, base):
    for c in ext.children:
        if c.start < ext.start or c.end > ext.end:
            d.err("child-outside-parent", c.label, f"[{c.start},{c.end}) not in [{ext.start},{ext.end})")
        if c.slot_part and (c.start - base) % 8:
            d.err("part-not-on-slot-boundary", c.label, f"+{c.start - base}")
    ch = sorted(ext.children, key=lambda c: c.start)
    for a, b in zip(ch, ch[1:]):
        if b.start < a.end and a.size > 0 and b.size > 0:
            d.err("siblings-overlap", b.label, f"[{a.start},{a.end}) and [{b.start},{b.end})")
    for c in ext.children:
        _check_tree(d, c, base)
