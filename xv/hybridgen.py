"""Generator of HybridClass families, values and readers (used by C18, C19, C20).

A class spec is {"name", "fields": [(xoname, pyname, kind, sub)], "cls"} with kind in
  sc (sub = scalar type name) | str | arr (sub = (scalar name, dims)) | nested (sub = spec) | ref (sub = spec).
Model values are dicts keyed by xo field name:
  np scalar | str | np.ndarray | dict (nested) | None / Obj id (ref).
"""
import sys
import types

import numpy as np

import xobjects as xo
from xv.typegen import SC, DT, _uid

MODNAME = "xv_generated_hybrids"
if MODNAME not in sys.modules:
    sys.modules[MODNAME] = types.ModuleType(MODNAME)
GEN = sys.modules[MODNAME]


def register(cls):
    """Make a generated class importable (pickle looks classes up by module + qualname)."""
    cls.__module__ = MODNAME
    cls.__qualname__ = cls.__name__
    setattr(GEN, cls.__name__, cls)
    xs = getattr(cls, "_XoStruct", None)
    if xs is not None:
        xs.__module__ = MODNAME
        xs.__qualname__ = xs.__name__
        setattr(GEN, xs.__name__, xs)
    return cls


def _dims(dims):
    return [d for d in dims if d != "F"]


def _arr_type(sn, dims):
    """SC[sn][...] for dims; a trailing "F" asks for Fortran axis order (first axis fastest)."""
    dd = _dims(dims)
    if "F" in dims:
        nd = len(dd)
        sl = tuple(slice(d, nd - 1 - i) for i, d in enumerate(dd))
    else:
        sl = tuple(slice(None) if d is None else d for d in dd)
    return SC[sn][sl if len(sl) > 1 else sl[0]]


def gen_leaf_fields(rng, n, prefix, defaults=False):
    out = []
    for i in range(n):
        r = rng.random()
        nm = f"{prefix}{i}"
        if r < 0.4:
            out.append((nm, "sc", rng.choice(["Float64", "Int64", "Int32", "Float32", "UInt8", "Int16"])))
        elif r < 0.55:
            out.append((nm, "str", None))
        else:
            sn = rng.choice(["Float64", "Int64", "Int32", "Float32", "Int8"])
            dims = rng.choice([[None], [None], [3], [2, 2], [None, 2], [2, None], [2, 3], [3, None]])
            if len(dims) > 1 and rng.random() < 0.4:
                dims = tuple(dims) + ("F",)  # Fortran (non-C) axis order
            out.append((nm, "arr", (sn, list(dims))))
    return out


def make_class(rng, fields, rename_p=0.3, defaults=False, name=None, lim=None, force_moveable=False):
    """fields: list of (xoname, kind, sub) -> spec with built HybridClass.
    lim: the class derives from a base class that declares `_lim_arrays_name` (the option is inherited): the python
    attribute of every numeric array field exposes only the first `lim` items."""
    name = name or f"Hy{next(_uid)}"
    xof, ren, spec_fields = {}, {}, []
    for xn, kind, sub in fields:
        if kind == "sc":
            ft = SC[sub]
        elif kind == "str":
            ft = xo.String
        elif kind == "arr":
            sn, dims = sub
            ft = _arr_type(sn, dims)
        elif kind == "nested":
            ft = sub["cls"]
            if defaults and rng.random() < 0.3:
                # a declared dictionary default for the nested part (used only when the part is not given at all)
                ft = xo.Field(sub["cls"]._XoStruct, default=to_xo_dict(sub, ValGenH(rng).value(sub)))
        elif kind == "ref":
            ft = xo.Ref[sub["cls"]]
            if rng.random() < 0.3:
                ft = xo.Field(ft)  # declared through an explicit Field
        dflt = None
        if defaults and kind in ("sc", "str", "arr") and rng.random() < 0.5:
            if kind == "sc":
                dflt = DT[sub].type(rng.choice([0, 1, 7, 3] + ([1000000, 2.0 ** 24] if DT[sub].itemsize >= 4 else [100])))
                ft = xo.Field(ft, default=dflt.item())
            elif kind == "str":
                dflt = rng.choice(["", "dflt"])
                ft = xo.Field(ft, default=dflt)
            elif kind == "arr" and None not in _dims(sub[1]):
                if rng.random() < 0.5:
                    arr = (np.arange(int(np.prod(_dims(sub[1])))).reshape(_dims(sub[1])) + 1).astype(DT[sub[0]])
                    dflt = arr
                    ft = xo.Field(ft, default_factory=(lambda a=arr: a.copy()))
            elif kind == "arr":
                # a dynamic array with a declared default (a constant array, or 1, 2, 3, ...)
                shp = [rng.randint(1, 3) if d is None else d for d in _dims(sub[1])]
                if rng.random() < 0.6:
                    arr = np.full(shp, rng.choice([1, 7]), dtype=DT[sub[0]])
                else:
                    arr = (np.arange(int(np.prod(shp))).reshape(shp) + 1).astype(DT[sub[0]])
                dflt = arr
                if rng.random() < 0.5:
                    ft = xo.Field(ft, default_factory=(lambda a=arr: a.copy()))
                else:
                    ft = xo.Field(ft, default=arr.tolist())
        xof[xn] = ft
        pn = xn
        if rng.random() < rename_p:
            pn = ("py_" if rng.random() < 0.7 else "_") + xn   # also names with a leading underscore
            ren[xn] = pn
        spec_fields.append((xn, pn, kind, sub, dflt))
    ns = {"_xofields": xof}
    if ren:
        ns["_rename"] = ren
    if force_moveable:
        ns["_force_moveable"] = True
    base = xo.HybridClass
    if lim is not None:
        base = register(type(f"{name}LimBase", (xo.HybridClass,), {"_lim_arrays_name": "_nlim", "_nlim": int(lim)}))
    cls = type(name, (base,), ns)
    register(cls)
    spec = {"name": name, "fields": spec_fields, "cls": cls}
    if lim is not None:
        spec["lim"] = int(lim)
    if force_moveable:
        spec["force_moveable"] = True
    return spec


def make_subclass(rng, spec):
    """A subclass of spec's class that redeclares the same fields, giving other declared defaults to the
    scalar fields that have one (and a default to some that have none)."""
    xof, fields = {}, []
    changed = 0
    for xn, pn, kind, sub, dflt in spec["fields"]:
        if kind == "sc":
            if dflt is not None or rng.random() < 0.4:
                base = 0 if dflt is None else int(dflt)
                nd = DT[sub].type((base + rng.choice([1, 2, 5])) % 100)
                xof[xn] = xo.Field(SC[sub], default=nd.item())
                fields.append((xn, pn, kind, sub, nd))
                changed += 1
                continue
            xof[xn] = SC[sub]
        elif kind == "str":
            xof[xn] = xo.String if dflt is None else xo.Field(xo.String, default=dflt)
        elif kind == "arr":
            sn, dims = sub
            at = _arr_type(sn, dims)
            xof[xn] = at if dflt is None else xo.Field(at, default_factory=(lambda a=dflt: a.copy()))
        elif kind == "nested":
            xof[xn] = sub["cls"]
        elif kind == "ref":
            xof[xn] = xo.Ref[sub["cls"]]
        fields.append((xn, pn, kind, sub, dflt))
    if not changed:
        return None
    ns = {"_xofields": xof}
    ren = {xn: pn for xn, pn, *_ in spec["fields"] if xn != pn}
    if ren:
        ns["_rename"] = ren
    cls = type(spec["name"] + "Sub", (spec["cls"],), ns)
    register(cls)
    out = {"name": cls.__name__, "fields": fields, "cls": cls, "parent": spec}
    if "lim" in spec:
        out["lim"] = spec["lim"]
    if spec.get("force_moveable"):
        out["force_moveable"] = True
    return out


def make_extension(rng, spec):
    """A class derived from spec's class in the usual way of adding fields to those of the parent:
    `_xofields = {**Parent._xofields, 'ext': ...}` (the parent's own dictionary entries, types or xo.Field objects, are
    used again), with the new field(s) after and sometimes also in front of the inherited ones (so the inherited fields
    get other offsets in the derived class).  Objects of the parent class must not notice."""
    parent = spec["cls"]
    xof, fields = {}, []
    if rng.random() < 0.5:
        xof["ext0"] = xo.Int64
        fields.append(("ext0", "ext0", "sc", "Int64", None))
    xof.update(parent._xofields)
    vary = rng.random() < 0.5
    for xn, pn, kind, sub, dflt in spec["fields"]:
        if vary:
            # the derived class declares python names of its own for the inherited fields (another name, the same
            # name, or none at all); the parent class keeps its names
            r = rng.random()
            pn = pn if r < 0.4 else (f"q_{xn}" if r < 0.8 else xn)
        fields.append((xn, pn, kind, sub, dflt))
    if rng.random() < 0.7:
        xof["ext1"] = _arr_type("Float64", [None])
        fields.append(("ext1", "ext1", "arr", ("Float64", [None]), None))
    else:
        xof["ext1"] = xo.Float64
        fields.append(("ext1", "ext1", "sc", "Float64", None))
    ns = {"_xofields": xof}
    ren = {xn: pn for xn, pn, *_ in fields if xn != pn}
    if ren:
        ns["_rename"] = ren
    cls = type(f"{spec['name']}Ext{next(_uid)}", (parent,), ns)
    register(cls)
    out = {"name": cls.__name__, "fields": fields, "cls": cls, "parent": spec}
    if "lim" in spec:
        out["lim"] = spec["lim"]
    if spec.get("force_moveable"):
        out["force_moveable"] = True
    return out


def gen_family(rng, levels=2, refs=True, defaults=False, rename_p=0.3, lim_p=0.0, force_p=0.0):
    """-> (specs innermost first, outer spec)"""
    specs = []

    def lim():
        return rng.choice([0, 1, 2, 3]) if rng.random() < lim_p else None
    inner = make_class(rng, gen_leaf_fields(rng, rng.randint(1, 4), "a"), rename_p, defaults, lim=lim())
    specs.append(inner)
    cur = inner
    for lv in range(1, levels + 1):
        fields = gen_leaf_fields(rng, rng.randint(1, 3), f"b{lv}_")
        r = rng.random()
        if r < 0.5 or not refs:
            fields.insert(rng.randint(0, len(fields)), (f"n{lv}", "nested", cur))
        elif r < 0.8:
            fields.insert(rng.randint(0, len(fields)), (f"r{lv}", "ref", cur))
        else:
            fields.insert(rng.randint(0, len(fields)), (f"n{lv}", "nested", cur))
            fields.append((f"r{lv}", "ref", rng.choice(specs)))
        cur = make_class(rng, fields, rename_p, defaults, lim=lim(), force_moveable=rng.random() < force_p)
        specs.append(cur)
    return specs, cur


class ValGenH:
    def __init__(self, rng):
        self.rng = rng
        self.ctr = rng.randint(1, 30)

    def scalar(self, sn):
        self.ctr += 1
        dt = DT[sn]
        if dt.kind in "iu":
            info = np.iinfo(dt)
            v = self.ctr % (info.max + 1)
            if self.rng.random() < 0.1:
                v = self.rng.choice([info.min, info.max])
            return dt.type(v)
        return dt.type(self.ctr + 0.25)

    def string(self, n=None):
        self.ctr += 1
        s = f"h{self.ctr}" + "abcdefghijkl"[: self.rng.randint(0, 10)]
        if n is not None:
            s = (s + "zzzzzzzzzzzzzzzzzzzzzzzz")[:n]
        return s

    def array(self, sn, dims, shape=None):
        if shape is None:
            shape = [d if d is not None else self.rng.randint(0, 4) for d in _dims(dims)]
        a = np.zeros(shape, dtype=DT[sn])
        for i in np.ndindex(*shape):
            a[i] = self.scalar(sn)
        return a

    def value(self, spec, like=None):
        """Model value for a class; `like` = existing value whose sizes must be kept (fitting assignment)."""
        out = {}
        for xn, pn, kind, sub, dflt in spec["fields"]:
            if kind == "sc":
                out[xn] = self.scalar(sub)
            elif kind == "str":
                out[xn] = self.string(None if like is None else len(like[xn]))
            elif kind == "arr":
                out[xn] = self.array(sub[0], sub[1], None if like is None else like[xn].shape)
            elif kind == "nested":
                out[xn] = self.value(sub, None if like is None else like[xn])
            elif kind == "ref":
                out[xn] = None
        return out


def to_kwargs(spec, mv, rng, dressed_nested=0.5, **bufkw):
    """Model value -> constructor kwargs (python names); nested hybrids as dressed objects or dicts."""
    kw = {}
    for xn, pn, kind, sub, dflt in spec["fields"]:
        v = mv[xn]
        key = pn if rng.random() < 0.8 else xn
        if kind == "sc":
            kw[key] = v.item() if rng.random() < 0.5 else v
        elif kind == "str":
            kw[key] = v
        elif kind == "arr":
            kw[key] = v.copy() if rng.random() < 0.6 else v.tolist()
            if isinstance(kw[key], list) and 0 in v.shape and v.ndim > 1:
                kw[key] = v.copy()
        elif kind == "nested":
            if rng.random() < dressed_nested:
                kw[key] = sub["cls"](**to_kwargs(sub, v, rng, dressed_nested))
            else:
                kw[key] = to_xo_dict(sub, v)
        elif kind == "ref":
            kw[key] = None
    kw.update(bufkw)
    return kw


def to_xo_dict(spec, mv):
    """Model value -> dict keyed by xobject field names (what the underlying struct accepts)."""
    d = {}
    for xn, pn, kind, sub, dflt in spec["fields"]:
        v = mv[xn]
        if kind == "sc":
            d[xn] = v.item()
        elif kind == "str":
            d[xn] = v
        elif kind == "arr":
            d[xn] = v.copy()
        elif kind == "nested":
            d[xn] = to_xo_dict(sub, v)
        elif kind == "ref":
            d[xn] = None
    return d


def compare_h(spec, mv, obj, resolve=None, path="", errs=None, both=True):
    """Compare a hybrid object (dressed, or a bare xobject) with its model.
    For dressed objects every Python attribute AND the underlying _xobject field are compared.
    resolve(id) -> (spec, model) for reference targets."""
    if errs is None:
        errs = []
    dressed = hasattr(obj, "_xobject")
    for xn, pn, kind, sub, dflt in spec["fields"]:
        want = mv[xn]
        views = []
        try:
            if dressed:
                views.append(("py", getattr(obj, pn)))
                if both:
                    views.append(("xo", getattr(obj._xobject, xn)))
            else:
                views.append(("xo", getattr(obj, xn)))
        except Exception as e:
            errs.append((f"{path}.{pn}", f"read-{type(e).__name__}", str(e)[:200]))
            continue
        for vn, got in views:
            p = f"{path}.{pn if vn == 'py' else xn}({vn})"
            if kind == "sc":
                if not (isinstance(got, np.generic) and got.dtype == want.dtype and got.tobytes() == want.tobytes()):
                    errs.append((p, "value|sc", f"read {got!r}, model {want!r}"))
            elif kind == "str":
                if got != want:
                    errs.append((p, "value|str", f"read {got!r}, model {want!r}"))
            elif kind == "arr":
                try:
                    a = got if isinstance(got, np.ndarray) else got.to_nparray()
                except Exception as e:
                    errs.append((p, f"read-{type(e).__name__}", str(e)[:200]))
                    continue
                wv = want
                if vn == "py" and spec.get("lim") is not None:
                    wv = want[:spec["lim"]]  # the python attribute exposes the first `lim` items only
                if tuple(a.shape) != tuple(wv.shape) or a.dtype != wv.dtype or np.ascontiguousarray(a).tobytes() != np.ascontiguousarray(wv).tobytes():
                    errs.append((p, "value|arr", f"read {a.tolist()!r:.120}, model {wv.tolist()!r:.120}"))
            elif kind == "nested":
                if got is None:
                    errs.append((p, "value|nested", "None"))
                else:
                    compare_h(sub, want, got, resolve, p, errs, both)
            elif kind == "ref":
                if want is None:
                    if got is not None:
                        errs.append((p, "value|ref", f"null reference reads {got!r}"))
                elif got is None:
                    errs.append((p, "value|ref", "non-null reference reads None"))
                elif resolve is not None:
                    tspec, tmv = resolve(want)
                    compare_h(tspec, tmv, got, resolve, p + "->", errs, both)
    return errs


def eq_h(spec, a, b):
    for xn, pn, kind, sub, dflt in spec["fields"]:
        x, y = a[xn], b[xn]
        if kind == "sc":
            if x.tobytes() != y.tobytes():
                return False
        elif kind == "str":
            if x != y:
                return False
        elif kind == "arr":
            if x.shape != y.shape or x.tobytes() != y.tobytes():
                return False
        elif kind == "nested":
            if not eq_h(sub, x, y):
                return False
    return True


def copy_model(spec, mv):
    out = {}
    for xn, pn, kind, sub, dflt in spec["fields"]:
        v = mv[xn]
        if kind == "arr":
            out[xn] = v.copy()
        elif kind == "nested":
            out[xn] = copy_model(sub, v)
        else:
            out[xn] = v
    return out


def has_ref(spec):
    return any(k == "ref" or (k == "nested" and has_ref(s)) for _, _, k, s, _ in spec["fields"])


def spec_sig(spec):
    out = []
    for xn, pn, kind, sub, dflt in spec["fields"]:
        if kind in ("nested", "ref"):
            out.append([kind, spec_sig(sub), pn != xn])
        else:
            out.append([kind, str(sub), pn != xn, dflt is not None])
    return out
