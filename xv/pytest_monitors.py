"""pytest plug-in: runs the repository's own test-suite under the /verif monitors.

  cd <repo> && XOBJECTS_VERIF=1 XV_SUITE_OUT=<file.json> PYTHONPATH=<repo>:/verif:/verif/.deps \\
      python -m pytest -q -p no:cacheprovider -p xv.pytest_monitors tests

Attached for the whole session: the allocation-log judge of C04 (bounds, alignment, disjointness; no stamping, the
regions belong to the tests) and C12 (lock-step first-fit specification, get_free accounting, free-list equality)
on EVERY buffer the tests create, and the byte-exact icontract contracts of C13 on the CPU copy primitives.
Results (event counts, contract evaluations, violations with the test id) are written to XV_SUITE_OUT.
"""
import json
import os
import weakref

import xv  # noqa: F401  (puts XV_REPO first on sys.path)
from xv import bufmon
from xv.props import alloc_common as ac

_judges = weakref.WeakKeyDictionary()
_current = {"test": None}


class Collector:
    tier = "suite"

    def __init__(self):
        self.counters = {}
        self.violations = []

    def count(self, key, n=1):
        self.counters[key] = self.counters.get(key, 0) + int(n)

    def violation(self, mech, msg, case=None):
        self.count("violations_raw")
        if len(self.violations) < 100:
            self.violations.append(dict(mech="suite:" + mech, msg=f"[{_current['test']}] {msg}"[:1500], case_seed=_current["test"], case=None))


COL = Collector()


def _dispatch(buf, ev):
    j = _judges.get(buf)
    if j is not None:
        j(buf, ev)
        j.hist = j.hist[-30:]


def pytest_configure(config):
    if os.environ.get(xv.GUARD) != "1":
        return
    bufmon.install()
    bufmon.install_contracts()
    from xobjects.context import XBuffer

    o_init = XBuffer.__init__

    def __init__(self, *a, **k):
        o_init(self, *a, **k)
        try:
            st = bufmon.state(self)
            st.logging = False  # the judges listen; no per-buffer log growth
            cfg = dict(capacity=self.capacity, alignment=self.default_alignment, grow_step=getattr(self, "grow_step", None),
                       kind=type(self).__name__)
            _judges[self] = ac.Judge(COL, self, cfg, True, True, stamps=False, register=False)
            COL.count("buffers")
        except Exception as e:  # never disturb the tests
            COL.count("judge_attach_failed")

    XBuffer.__init__ = __init__
    bufmon.listeners.append(_dispatch)


def pytest_runtest_setup(item):
    _current["test"] = item.nodeid


def pytest_runtest_teardown(item):
    for name, det in bufmon.take_contract_failures():
        COL.violation("contract:" + name, str(det))


def pytest_sessionfinish(session, exitstatus):
    out = os.environ.get("XV_SUITE_OUT")
    if not out:
        return
    for k, v in bufmon.contract_evals.items():
        COL.counters["contract:" + k] = v
    with open(out, "w") as f:
        json.dump(dict(counters=COL.counters, violations=COL.violations, exitstatus=int(exitstatus)), f)
