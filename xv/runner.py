"""E7 — runner: sharding, seeds, three-valued verdicts, evidence, replay files,
known findings.

Top level (``./check CNN``) spawns NSHARDS worker sub-processes (one scratch cwd
each), merges their JSON results, classifies violations against
``known_findings.json``, writes ``evidence/<id>.json`` and replay files, prints
``VIOLATION`` / ``KNOWN-FINDING`` / ``INCONCLUSIVE`` lines and sets the exit
status (0 held on what was observed, 1 violation, 3 inconclusive).
"""
import hashlib
import importlib
import json
import os
import random
import shutil
import subprocess
import sys
import tempfile
import time
import traceback

from . import VERIF_DIR, REPO, DEPS, GUARD

PY = "/venv/bin/python"
NSHARDS = 16
EXIT_HELD, EXIT_VIOLATION, EXIT_INCONCLUSIVE = 0, 1, 3
REACH_CAP = 2000  # per worker and function


# --------------------------------------------------------------------------
# worker side
# --------------------------------------------------------------------------
class CaseAbort(Exception):
    """Raised by a property module to stop the current case after recording a
    violation (the rest of the case would only produce follow-up noise)."""


class Worker:
    def __init__(self, pid, tier, seed, shard, nshards):
        self.pid, self.tier, self.seed = pid, tier, seed
        self.shard, self.nshards = shard, nshards
        self.evaluations = 0
        self.sigs = set()
        self.samples = []
        self.counters = {}
        self.violations = []
        self.harness_errors = []
        self.case_seed = None
        self.t0 = time.time()
        self.notes = {}

    # -- bookkeeping used by property modules
    def count(self, key, n=1):
        self.counters[key] = self.counters.get(key, 0) + int(n)

    def case(self, sig, sample=None, nontrivial=True):
        """Register one executed case.  `sig` is the shape signature (anything
        JSON-able); distinct non-trivial signatures are counted."""
        self.evaluations += 1
        if nontrivial:
            h = hashlib.sha1(
                json.dumps(sig, sort_keys=True, default=str).encode()
            ).hexdigest()[:16]
            self.sigs.add(h)
        if sample is not None and len(self.samples) < 3:
            self.samples.append(_jsonable(sample))

    def violation(self, mech, msg, case=None):
        """Record a violation.  `mech` is a mechanism key (stable, derived from
        the case's features and the symptom — never from random values)."""
        self.count("violations_raw")
        if len(self.violations) < 200:
            self.violations.append(
                {
                    "mech": mech,
                    "msg": str(msg)[:2000],
                    "case_seed": self.case_seed,
                    "case": _jsonable(case),
                }
            )

    def seen(self, key):
        """Mark a coverage feature as observed (reported in evidence)."""
        self.count("seen:" + key)


def _jsonable(x, depth=0):
    if depth > 12:
        return repr(x)[:200]
    if x is None or isinstance(x, (bool, int, str)):
        return x
    if isinstance(x, float):
        if x != x or x in (float("inf"), float("-inf")):
            return repr(x)
        return x
    if isinstance(x, bytes):
        return x.hex()
    if isinstance(x, dict):
        return {str(k): _jsonable(v, depth + 1) for k, v in x.items()}
    if isinstance(x, (list, tuple, set)):
        return [_jsonable(v, depth + 1) for v in x]
    try:
        import numpy as np

        if isinstance(x, np.generic):
            return _jsonable(x.item(), depth + 1)
        if isinstance(x, np.ndarray):
            return _jsonable(x.tolist(), depth + 1)
    except Exception:
        pass
    return repr(x)[:300]


def _in_repo(tb):
    """True if the innermost frames of the traceback include library code."""
    root = os.path.join(REPO, "xobjects")
    frames = traceback.extract_tb(tb)
    return any(f.filename.startswith(root) for f in frames[-6:])


def lib_exc_mech(exc):
    """Mechanism key for an unexpected exception raised inside the library."""
    frames = traceback.extract_tb(exc.__traceback__)
    root = os.path.join(REPO, "xobjects")
    where = "?"
    for f in reversed(frames):
        if f.filename.startswith(root):
            where = f"{os.path.basename(f.filename)}:{f.name}"
            break
    return f"exc:{type(exc).__name__}@{where}"


def case_rng(pid, seed, shard, i):
    return random.Random(f"{pid}/{seed}/{shard}/{i}")


def worker_main(argv):
    pid, tier, seed, shard, nshards, out = argv[:6]
    replay_seed = argv[6] if len(argv) > 6 else None
    seed, shard, nshards = int(seed), int(shard), int(nshards)
    os.environ[GUARD] = "1"
    import faulthandler

    faulthandler.enable()
    mod = importlib.import_module(f"xv.props.{pid.lower()}")
    w = Worker(pid, tier, seed, shard, nshards)
    res = {"ok": False}
    reach = _start_reach_counters()
    try:
        if hasattr(mod, "setup"):
            mod.setup(w)
        if replay_seed is not None:
            todo = [replay_seed]
        else:
            total = mod.N_THOROUGH if tier == "thorough" else mod.N_QUICK
            n = (total + nshards - 1) // nshards
            todo = [f"{pid}/{seed}/{shard}/{i}" for i in range(n)]
        tcap = getattr(mod, "T_THOROUGH", 1500) if tier == "thorough" else getattr(mod, "T_QUICK", 75)
        if os.environ.get("XV_TCAP"):  # developer override (sweeps); never set by the registered commands
            tcap = float(os.environ["XV_TCAP"])
        start = int(os.environ.get("XV_START", "0"))
        skip = set(x for x in os.environ.get("XV_SKIP", "").split(",") if x)
        tcap -= float(os.environ.get("XV_ELAPSED", "0"))
        for ci, cs in enumerate(todo):
            if ci < start or str(ci) in skip:
                continue
            if time.time() - w.t0 > tcap:
                w.count("stopped_by_time_cap")
                break
            with open(out + ".progress", "w") as pf:
                pf.write(f"{ci} {cs}")
            if replay_seed is None and ci % 10 == 0 and ci > start:
                _dump(w, out + ".ckpt", dict(ok=True, next=ci))
            w.case_seed = cs
            rng = random.Random(cs)
            try:
                mod.run_case(w, rng)
            except CaseAbort:
                pass
            except RecursionError as e:
                w.violation("exc:RecursionError", "RecursionError", None)
            except Exception as e:  # noqa
                if _in_repo(e.__traceback__):
                    w.violation(
                        lib_exc_mech(e),
                        "".join(traceback.format_exception(e))[-1800:],
                        None,
                    )
                else:
                    w.harness_errors.append(
                        cs + "\n" + "".join(traceback.format_exception(e))[-3000:]
                    )
                    if len(w.harness_errors) > 5:
                        break
        if hasattr(mod, "extra_workload") and shard == 0 and replay_seed is None:
            w.case_seed = f"{pid}/extra"
            mod.extra_workload(w)
        if hasattr(mod, "teardown"):
            mod.teardown(w)
        for k, v in reach.items():
            w.counters["reach:" + k] = v
        res["ok"] = True
    except Exception as e:  # setup failure etc.
        w.harness_errors.append("setup/teardown\n" + "".join(traceback.format_exception(e))[-3000:])
    _dump(w, out, res)
    return 0


def _start_reach_counters():
    """E2 reach counters: sys.monitoring PY_START events of code objects under <repo>/xobjects,
    counted per 'file.py:qualname' (what the workload actually drove inside the library)."""
    counts = {}
    mon = getattr(sys, "monitoring", None)
    if mon is None or os.environ.get("XV_NO_REACH"):
        return counts
    root = os.path.join(REPO, "xobjects") + os.sep
    tool = 3
    try:
        mon.use_tool_id(tool, "xv-reach")
    except Exception:
        return counts
    keys = {}

    def on_start(code, offset):
        k = keys.get(code)
        if k is None:
            fn = code.co_filename
            if not fn.startswith(root):
                return mon.DISABLE
            k = keys[code] = f"{fn[len(root):]}:{code.co_qualname}"
        n = counts[k] = counts.get(k, 0) + 1
        if n >= REACH_CAP:
            return mon.DISABLE  # counted as ">= REACH_CAP"; keeps the overhead negligible

    mon.register_callback(tool, mon.events.PY_START, on_start)
    mon.set_events(tool, mon.events.PY_START)
    return counts


def _dump(w, out, res):
    res = dict(res)
    try:
        from xv import model as _m
        for k, v in getattr(_m, "STATS", {}).items():
            w.counters[k] = w.counters.get(k, 0) + v
        _m.STATS.clear()
    except Exception:
        pass
    res.update(
        evaluations=w.evaluations,
        sigs=sorted(w.sigs),
        samples=w.samples,
        counters=w.counters,
        violations=w.violations,
        harness_errors=w.harness_errors,
        notes=w.notes,
        wall=time.time() - w.t0,
    )
    with open(out + ".tmp", "w") as f:
        json.dump(_jsonable(res), f)
    os.replace(out + ".tmp", out)


def _anchor_exists(a):
    """'file.py:Class.func' -> does <repo>/xobjects/file.py still define func?"""
    fn, qn = a.split(":", 1)
    try:
        src = open(os.path.join(REPO, "xobjects", fn)).read()
    except OSError:
        return False
    return f"def {qn.split('.')[-1]}(" in src


# --------------------------------------------------------------------------
# top level
# --------------------------------------------------------------------------
def ensure_deps():
    if os.path.isdir(os.path.join(DEPS, "icontract")):
        return
    subprocess.run(
        [
            PY, "-m", "pip", "install", "-q", "--no-index", "--find-links",
            "/opt/veriftools/wheels", "--target", DEPS, "icontract",
        ],
        check=False,
        stdout=subprocess.DEVNULL,
        stderr=subprocess.DEVNULL,
    )
    # a path entry that did not exist when it was first tried is cached as "no finder"
    sys.path_importer_cache.pop(DEPS, None)
    importlib.invalidate_caches()


def load_known():
    p = os.path.join(VERIF_DIR, "known_findings.json")
    if not os.path.exists(p):
        return []
    with open(p) as f:
        return json.load(f).get("findings", [])


def child_env():
    env = dict(os.environ)
    env["PYTHONPATH"] = os.pathsep.join([REPO, VERIF_DIR, DEPS])
    env["PYTHONHASHSEED"] = "0"
    env["PYTHONDONTWRITEBYTECODE"] = "1"
    env[GUARD] = "1"
    env["XV_REPO"] = REPO
    env.setdefault("OMP_NUM_THREADS", "2")
    return env


def main(argv=None):
    import argparse

    ap = argparse.ArgumentParser()
    ap.add_argument("pid")
    ap.add_argument("--tier", default=os.environ.get("VERIF_TIER", "quick"))
    ap.add_argument("--seed", type=int, default=int(os.environ.get("VERIF_SEED", "0") or 0))
    ap.add_argument("--replay", default=None)
    ap.add_argument("--shards", type=int, default=None)
    ap.add_argument("--no-evidence", action="store_true")
    a = ap.parse_args(argv)
    pid = a.pid.upper()
    tier = a.tier if a.tier in ("quick", "thorough") else "quick"
    ensure_deps()
    sys.path.insert(0, DEPS)
    mod = importlib.import_module(f"xv.props.{pid.lower()}")
    t0 = time.time()
    scratch = tempfile.mkdtemp(prefix=f"xv_{pid}_")
    try:
        return _run(pid, tier, a, mod, scratch, t0)
    finally:
        shutil.rmtree(scratch, ignore_errors=True)


def _run(pid, tier, a, mod, scratch, t0):
    env = child_env()
    nshards = a.shards or getattr(mod, "SHARDS", NSHARDS)
    replay_seed = None
    if a.replay:
        with open(a.replay) as f:
            rp = json.load(f)
        replay_seed = rp["case_seed"]
        tier = rp.get("tier", tier)
        nshards = 1
    tcap = getattr(mod, "T_THOROUGH", 1500) if tier == "thorough" else getattr(mod, "T_QUICK", 75)
    watchdog = tcap * 2 + 240
    procs = []
    for s in range(nshards):
        d = os.path.join(scratch, f"s{s}")
        os.makedirs(d)
        out = os.path.join(d, "result.json")
        cmd = [PY, "-m", "xv.worker", pid, tier, str(a.seed), str(s), str(nshards), out]
        if replay_seed is not None:
            cmd.append(replay_seed)
        log = open(os.path.join(d, "log.txt"), "w")
        procs.append((s, out, log, subprocess.Popen(cmd, cwd=d, env=env, stdout=log, stderr=subprocess.STDOUT)))
    results, inconclusive, crashes = [], [], []
    for s, out, log, p in procs:
        skip, respawns = [], 0
        while True:
            try:
                p.wait(timeout=max(1, watchdog - (time.time() - t0)))
            except subprocess.TimeoutExpired:
                p.kill()
                p.wait()
                inconclusive.append(f"shard {s} watchdog")
            log.close()
            if os.path.exists(out):
                with open(out) as f:
                    results.append(json.load(f))
                break
            tail = open(log.name).read()[-1500:]
            prog = open(out + ".progress").read().split() if os.path.exists(out + ".progress") else None
            if p.returncode is not None and p.returncode < 0 and prog and respawns < 6 and replay_seed is None:
                # the worker was killed by a signal while running a case (e.g. SIGSEGV inside generated C)
                crashes.append(dict(mech=f"worker-killed-by-signal-{-p.returncode}", case_seed=prog[1],
                                    msg=f"worker process died with signal {-p.returncode} during case {prog[1]}\n{tail[-900:]}", case=None))
                skip.append(prog[0])
                nxt = 0
                if os.path.exists(out + ".ckpt"):
                    with open(out + ".ckpt") as f:
                        ck = json.load(f)
                    nxt = ck["next"]
                    results.append(ck)
                    os.remove(out + ".ckpt")
                respawns += 1
                env2 = dict(env, XV_START=str(nxt), XV_SKIP=",".join(skip), XV_ELAPSED=str(time.time() - t0))
                log = open(log.name, "a")
                cmd = [PY, "-m", "xv.worker", pid, tier, str(a.seed), str(s), str(nshards), out]
                p = subprocess.Popen(cmd, cwd=os.path.dirname(out), env=env2, stdout=log, stderr=subprocess.STDOUT)
                continue
            inconclusive.append(f"shard {s} produced no result (rc={p.returncode}): {tail}")
            if replay_seed is not None and p.returncode is not None and p.returncode < 0:
                crashes.append(dict(mech=f"worker-killed-by-signal-{-p.returncode}", case_seed=replay_seed, msg=tail[-900:], case=None))
            break
    # ---- merge
    evaluations = sum(r["evaluations"] for r in results)
    sigs = set()
    samples, counters, violations, herrs = [], {}, [], []
    for r in results:
        sigs.update(r["sigs"])
        for x in r["samples"]:
            if len(samples) < 4:
                samples.append(x)
        for k, v in r["counters"].items():
            counters[k] = counters.get(k, 0) + v
        violations.extend(r["violations"])
        herrs.extend(r["harness_errors"])
    violations.extend(crashes)
    for h in herrs[:3]:
        inconclusive.append("harness error: " + h[-1200:])
    reached = {k[6:]: v for k, v in counters.items() if k.startswith("reach:")}
    counters = {k: v for k, v in counters.items() if not k.startswith("reach:")}
    # ---- anchor functions of the property's mechanisms must have been entered
    anchors = {}
    from .anchors import ANCHORS as _ANCH
    for a_ in getattr(mod, "ANCHORS", _ANCH.get(pid, [])):
        anchors[a_] = reached.get(a_, 0)
        if replay_seed is None and results and not anchors[a_] and _anchor_exists(a_):
            inconclusive.append(f"anchor function {a_} was never entered by the workload")
    # ---- floors (only for full runs)
    floors = dict(getattr(mod, "FLOORS", {}))
    if tier == "thorough":
        floors.update(getattr(mod, "FLOORS_THOROUGH", {}))
    if replay_seed is None:
        for k, need in floors.items():
            have = evaluations if k == "evaluations" else counters.get(k, 0)
            if have < need:
                inconclusive.append(f"floor {k}: observed {have} < {need}")
    # ---- classify
    known = [k for k in load_known() if k.get("property") == pid and k.get("status") == "known"]
    known_mech = {k["mechanism"]: k for k in known}
    kf_hits, new = {}, []
    for v in violations:
        if v["mech"] in known_mech:
            kf_hits.setdefault(v["mech"], []).append(v)
        else:
            new.append(v)
    # ---- replay files
    lines = []
    os.makedirs(os.path.join(VERIF_DIR, "replays"), exist_ok=True)
    if replay_seed is None:
        import glob
        for old in glob.glob(os.path.join(VERIF_DIR, "replays", f"{pid}-*.json")):
            os.remove(old)
    seen_mech = {}
    for v in new:
        seen_mech.setdefault(v["mech"], []).append(v)
    for mech, vs in seen_mech.items():
        v = vs[0]
        h = hashlib.sha1((mech + str(v["case_seed"])).encode()).hexdigest()[:10]
        path = os.path.join(VERIF_DIR, "replays", f"{pid}-{h}.json")
        with open(path, "w") as f:
            json.dump({"property": pid, "tier": tier, "seed": a.seed, "case_seed": v["case_seed"],
                       "mechanism": mech, "count": len(vs), "msg": v["msg"], "case": v["case"]}, f, indent=1)
        lines.append(f"VIOLATION property={pid} replay={path}")
        first = v["msg"].strip().splitlines()
        print(f"  mechanism={mech} occurrences={len(vs)} :: " + (first[-1] if first and first[0].startswith("Traceback") else (first[0] if first else ""))[:300])
    for mech, vs in kf_hits.items():
        print(f"KNOWN-FINDING: property={pid} {known_mech[mech]['what']} [mechanism={mech} hits={len(vs)}]")
    # ---- evidence
    wall = time.time() - t0
    if replay_seed is None and not a.no_evidence:
        cov = {
            "evaluations": evaluations,
            "distinct_nontrivial": len(sigs),
            "rule": getattr(mod, "RULE", ""),
            "samples": samples or ["(no sample recorded)"],
            "observed": {k: v for k, v in sorted(counters.items())},
            "floors": floors,
            "anchor_functions_entered": anchors,
            "library_functions_entered": len(reached),
            "library_calls_observed": sum(reached.values()),
            "library_function_names": sorted(reached),
            "most_entered_library_functions": dict(sorted(reached.items(), key=lambda kv: -kv[1])[:25]),
            "shards": nshards,
            "known_finding_hits": {m: len(v) for m, v in kf_hits.items()},
            "new_violation_mechanisms": {m: len(v) for m, v in seen_mech.items()},
            "inconclusive_reasons": inconclusive[:5],
        }
        if getattr(mod, "EXHAUSTIVE", False):
            cov["exhaustive"] = True
        ev = {
            "property_id": pid,
            "tier": tier,
            "seed": a.seed,
            "level": getattr(mod, "LEVEL", "exploration"),
            "coverage": cov,
            "assumptions": getattr(mod, "ASSUMPTIONS", []),
            "wall_s": round(wall, 2),
            "violations": len(new),
        }
        os.makedirs(os.path.join(VERIF_DIR, "evidence"), exist_ok=True)
        with open(os.path.join(VERIF_DIR, "evidence", f"{pid}.json"), "w") as f:
            json.dump(ev, f, indent=1)
    # ---- verdict
    summ = {k: v for k, v in sorted(counters.items()) if not k.startswith("seen:")}
    print(f"[{pid}] tier={tier} seed={a.seed} cases={evaluations} distinct={len(sigs)} wall={wall:.1f}s")
    print(f"[{pid}] observed: " + ", ".join(f"{k}={v}" for k, v in summ.items()))
    print(f"[{pid}] library functions entered: {len(reached)} ({sum(reached.values())} calls); anchors: "
          + ", ".join(f"{k}={v}" for k, v in anchors.items()))
    if lines:
        for r in inconclusive[:3]:
            print(f"NOTE (also inconclusive): {r}")
        for l in lines[:15]:
            print(l)
        if len(lines) > 15:
            print(f"... and {len(lines) - 15} more violation mechanisms (replay files written)")
        return EXIT_VIOLATION
    if inconclusive:
        for r in inconclusive[:6]:
            print(f"INCONCLUSIVE property={pid} reason={r}")
        return EXIT_INCONCLUSIVE
    print(f"HELD property={pid} on {evaluations} observed executions")
    return EXIT_HELD
