"""E5 — C harness.

* `plan_calls` enumerates, from the type AST and a live object, every generated
  accessor that the C API offers for the object's access paths together with
  what the *Python* accessors report for the same path (value, element address,
  length, member index, member address).
* `InProc` compiles `T._gen_kernels()` through the real `ContextCpu.add_kernels`
  (cffi) path and calls accessors through `ctx.kernels.<name>(obj=..., i0=...)`.
* `standalone_source` / `run_standalone` build a stand-alone executable around
  an exactly-sized malloc'd image of the real buffer, under clang ASan+UBSan.
"""
import os
import subprocess

import numpy as np

import xobjects as xo
from xv.typegen import DT, build, is_static

xo.general._print.suppress = True
CLANG = "clang"
SAN_FLAGS = ["-fsanitize=address,undefined", "-fno-sanitize-recover=all", "-fno-omit-frame-pointer"]


class Call:
    __slots__ = ("name", "kind", "idx", "expect", "label", "leaf_t", "path")

    def __init__(self, name, kind, idx, expect, label, leaf_t=None, path=None):
        self.name, self.kind, self.idx, self.expect, self.label = name, kind, tuple(int(i) for i in idx), expect, label
        self.leaf_t, self.path = leaf_t, path

    def __repr__(self):
        return f"{self.name}{self.idx}"


def kname(root, action, fields, n, with_n):
    a = action + (str(n) if (with_n and n > 0) else "")
    parts = [root, a]
    if fields:
        parts.append("_".join(fields))
    return "_".join(parts)


def plan_calls(t, h, mv, cap_per_array=6, rng=None):
    """-> list[Call] for root type t (st | ar | ur), live handle h, model value mv."""
    root = t["n"]
    out = []

    def idx_iter(shape):
        allidx = list(np.ndindex(*shape))
        if len(allidx) > cap_per_array and rng is not None:
            keep = {allidx[0], allidx[-1]}
            keep.update(rng.sample(allidx, cap_per_array - 2))
            allidx = sorted(keep)
        return allidx

    def rec(nt, node, nv, fields, idx, label, addr, path):
        """node: python-side object for this node (handle / np scalar / str / None);
        addr: python-side absolute offset of this node."""
        k = nt["k"]
        n = len(idx)
        if k == "sc":
            out.append(Call(kname(root, "get", fields, n, False), "get", idx, node, label, nt, path))
            out.append(Call(kname(root, "getp", fields, n, True), "getp", idx, addr, label, nt, path))
            out.append(Call(kname(root, "set", fields, n, False), "set", idx, addr, label, nt, path))
        elif k == "str":
            out.append(Call(kname(root, "getp", fields, n, True), "getp", idx, addr, label, nt, path))
        elif k == "st":
            out.append(Call(kname(root, "getp", fields, n, True), "getp", idx, int(node._offset), label))
            for fn, ft in nt["f"]:
                child = getattr(node, fn)
                caddr = int(node._get_offset(fn))
                rec(ft, child, nv[fn], fields + [fn], idx, f"{label}.{fn}", caddr, path + (("f", fn),))
        elif k == "ar":
            out.append(Call(kname(root, "getp", fields, n, True), "getp", idx, int(node._offset), label))
            out.append(Call(kname(root, "len", fields, n, True), "len", idx, int(len(node)), label))
            for ii in idx_iter(nv.shape):
                child = node[ii[0] if len(ii) == 1 else ii]
                caddr = int(node._get_offset(ii))
                rec(nt["it"], child, nv.items[ii], fields, idx + list(ii), f"{label}{list(ii)}", caddr, path + (("i", ii),))
        elif k == "ref":
            if nv is None:
                return  # paths through a null reference are outside the domain
            rec(nt["to"], node, nv, fields, idx, label + "->", int(node._offset), path)
        elif k == "ur":
            out.append(Call(kname(root, "getp", fields, n, True), "getp", idx, addr, label))
            out.append(Call(kname(root, "typeid", fields, n, False), "typeid", idx, -1 if nv is None else nv[0], label))
            if nv is not None:
                out.append(Call(kname(root, "member", fields, n, False), "member", idx, int(node._offset), label))

    if t["k"] == "ur":
        rec(t, h.get(), mv, [], [], "root", int(h._offset), ())
    else:
        rec(t, h, mv, [], [], "root", int(h._offset), ())
    return out


# --------------------------------------------------------------------------
# in-process (the real cffi call path)
# --------------------------------------------------------------------------
class InProc:
    def __init__(self):
        self.ctx = xo.ContextCpu()
        self.ctx._compile_kernels_info = False

    def compile(self, cls):
        self.ctx.add_kernels(kernels=cls._gen_kernels(), extra_compile_args=("-O0", "-w"), extra_link_args=())
        return self.ctx.kernels

    @staticmethod
    def base_address(buf):
        return int(np.frombuffer(buf.buffer, dtype="int8").ctypes.data)

    def call(self, h, c, value=None):
        kw = {"obj": h}
        for i, v in enumerate(c.idx):
            kw[f"i{i}"] = v
        if c.kind == "set":
            kw["value"] = value
        k = self.ctx.kernels[c.name]
        r = k(**kw)
        if c.kind in ("getp", "member"):
            ffi = k.ffi_interface
            return int(ffi.cast("size_t", r)) - self.base_address(h._buffer)
        return r


def c_result_equal(c, got):
    """Compare an in-process C result with the Python-side expectation."""
    if c.kind == "get":
        dt = DT[c.leaf_t["t"]]
        try:
            with np.errstate(all="ignore"):
                g = dt.type(got)
        except (OverflowError, ValueError):
            return False
        return g.tobytes() == c.expect.tobytes() or (dt.kind == "f" and g != g and c.expect != c.expect)
    return int(got) == int(c.expect)


# --------------------------------------------------------------------------
# stand-alone sanitizer driver
# --------------------------------------------------------------------------
CFMT = {"Int8": "int8_t", "UInt8": "uint8_t", "Int16": "int16_t", "UInt16": "uint16_t", "Int32": "int32_t",
        "UInt32": "uint32_t", "Int64": "int64_t", "UInt64": "uint64_t", "Float32": "float", "Float64": "double"}


def c_literal(tname, v):
    dt = DT[tname]
    if dt.kind == "f":
        x = float(v)
        if x != x:
            return "(0.0/0.0)"
        if x in (float("inf"), float("-inf")):
            return "(1.0/0.0)" if x > 0 else "(-1.0/0.0)"
        return f"(({CFMT[tname]}){x!r})" if dt.itemsize == 8 else f"(({CFMT[tname]}){x!r})"
    iv = int(v)
    if dt.kind == "u":
        return f"(({CFMT[tname]}){iv}ULL)"
    if iv == -(2 ** 63):
        return "((int64_t)(-9223372036854775807LL-1))"
    return f"(({CFMT[tname]}){iv}LL)"


DRIVER_PRELUDE = r"""
#include <stdio.h>
#include <stdlib.h>
#include <string.h>
static char *base, *pristine; static long N;
#define R(x) printf("R %lld\n",(long long)(x))
#define U(x) printf("U %llu\n",(unsigned long long)(x))
#define D(x) do{ double _d=(double)(x); unsigned long long _b; memcpy(&_b,&_d,8); printf("D %llx\n",_b);}while(0)
#define F(x) do{ float _f=(float)(x); unsigned int _b; memcpy(&_b,&_f,4); printf("F %x\n",_b);}while(0)
#define P(x) printf("P %ld\n",(long)((char*)(x)-base))
static void DIFF(void){ long i; printf("DIFF"); for(i=0;i<N;i++) if(base[i]!=pristine[i]) printf(" %ld:%d",i,(int)(unsigned char)base[i]); printf("\n"); memcpy(base,pristine,N);}
"""


def standalone_source(class_source, root_cname, offset, script_lines):
    main = [DRIVER_PRELUDE, "int main(int argc,char**argv){",
            "  FILE*f=fopen(argv[1],\"rb\"); if(!f) return 3; fseek(f,0,SEEK_END); N=ftell(f); fseek(f,0,SEEK_SET);",
            "  base=(char*)malloc(N); pristine=(char*)malloc(N); if(N && fread(base,1,N,f)!=(size_t)N) return 3; fclose(f);",
            "  memcpy(pristine,base,N);",
            f"  {root_cname} obj=({root_cname})(base+{int(offset)});"]
    main += ["  " + l for l in script_lines]
    main += ["  printf(\"END\\n\"); free(base); free(pristine); return 0; }"]
    return class_source + "\n" + "\n".join(main)


def script_for(calls, setter_values):
    """C lines + expected output lines for a list of Calls."""
    lines, expect = [], []
    for c in calls:
        args = "".join(f",{i}" for i in c.idx)
        if c.kind == "get":
            tn = c.leaf_t["t"]
            dt = DT[tn]
            if dt.kind == "f":
                m = "D" if dt.itemsize == 8 else "F"
                lines.append(f"{m}({c.name}(obj{args}));")
                bits = int.from_bytes(c.expect.tobytes(), "little")
                expect.append(f"{m} {bits:x}")
            elif dt.kind == "u":
                lines.append(f"U({c.name}(obj{args}));")
                expect.append(f"U {int(c.expect)}")
            else:
                lines.append(f"R({c.name}(obj{args}));")
                expect.append(f"R {int(c.expect)}")
        elif c.kind in ("getp", "member"):
            lines.append(f"P({c.name}(obj{args}));")
            expect.append(f"P {int(c.expect)}")
        elif c.kind in ("len", "typeid"):
            lines.append(f"R({c.name}(obj{args}));")
            expect.append(f"R {int(c.expect)}")
        elif c.kind == "set":
            v = setter_values[id(c)]
            lines.append(f"{c.name}(obj{args},{c_literal(c.leaf_t['t'], v)}); DIFF();")
            expect.append(("DIFF", int(c.expect), v.tobytes()))
    return lines, expect


def expected_text(expect, image):
    out = []
    for e in expect:
        if isinstance(e, tuple):
            _, addr, newb = e
            parts = [f"{addr + i}:{b}" for i, b in enumerate(newb) if image[addr + i] != b]
            out.append("DIFF" + "".join(" " + p for p in parts))
        else:
            out.append(e)
    out.append("END")
    return out


def build_and_run(src, image, workdir, tag, flags=None, std="-std=c99", compiler=None, timeout=60):
    """-> dict(rc, stdout lines, stderr, compile_err)"""
    cpath = os.path.join(workdir, f"{tag}.c")
    exe = os.path.join(workdir, f"{tag}.exe")
    img = os.path.join(workdir, f"{tag}.img")
    with open(cpath, "w") as f:
        f.write(src)
    with open(img, "wb") as f:
        f.write(image)
    cmd = [compiler or CLANG, std, "-O1", "-g"] + (SAN_FLAGS if flags is None else flags) + ["-Wno-everything", cpath, "-o", exe]
    p = subprocess.run(cmd, capture_output=True, text=True, timeout=120)
    if p.returncode != 0:
        return dict(rc=None, out=[], err="", compile_err=p.stderr[-3000:])
    env = dict(os.environ, ASAN_OPTIONS="halt_on_error=1:detect_leaks=0:abort_on_error=0:allocator_may_return_null=1",
               UBSAN_OPTIONS="halt_on_error=1:print_stacktrace=1")
    r = subprocess.run([exe, img], capture_output=True, text=True, timeout=timeout, env=env)
    for pth in (cpath, exe, img):
        try:
            os.remove(pth)
        except OSError:
            pass
    return dict(rc=r.returncode, out=r.stdout.splitlines(), err=r.stderr[-4000:], compile_err=None)


def sanitizer_reports(stderr):
    n = 0
    for l in stderr.splitlines():
        if "ERROR: AddressSanitizer" in l or "runtime error:" in l:
            n += 1
    return n


def class_source_for(cls, specialize_for="cpu_serial"):
    from xobjects.context import sort_classes, sources_from_classes, _concatenate_sources
    from xobjects.specialize_source import specialize_source

    classes = sort_classes([cls])
    srcs = sources_from_classes(classes)
    source, _ = _concatenate_sources(["#include <stdint.h>"] + srcs)
    return specialize_source(source, specialize_for=specialize_for, search_in_folders=[])
