"""E4 — comparison of live handles with model values, and placement environments.

`compare(t, mv, got)` walks every field, item and nested accessor of a live
xobject (getattr, [], _to_dict, to_nplike, to_nparray, len, _shape) and compares
bit-exactly with the model value.  Exceptions raised by an accessor become
mismatch entries, so one broken read does not hide the others.
"""
import os
import traceback

import numpy as np

import xobjects as xo
from xv import bufmon, REPO
from xv.typegen import DT, AVal, is_static, as_ndarray

_ROOT = os.path.join(REPO, "xobjects")


def exc_kind(e):
    where = "?"
    for f in reversed(traceback.extract_tb(e.__traceback__)):
        if f.filename.startswith(_ROOT):
            where = f"{os.path.basename(f.filename)}:{f.name}"
            break
    return f"exc:{type(e).__name__}@{where}"


def ar_sig(t):
    nd = len(t["dims"])
    return "ar%d%s%s%s" % (
        nd,
        "d" if any(d is None for d in t["dims"]) else "s",
        "" if list(t["ord"]) == list(range(nd)) else "o",
        "S" if is_static(t["it"]) else "D",
    )


class Cmp:
    def __init__(self, full=True, stats=None):
        self.errs = []  # (path, kind, detail, node_sig)
        self.reads = 0
        self.full = full

    def err(self, path, kind, detail, sig=""):
        if len(self.errs) < 25:
            self.errs.append((path, kind, str(detail)[:300], sig))

    def scalar(self, t, mv, got, path):
        self.reads += 1
        dt = DT[t["t"]]
        if not isinstance(got, np.generic) or got.dtype != dt:
            self.err(path, "type", f"expected numpy {dt} scalar, got {type(got).__name__} {got!r}")
            return
        if got.tobytes() != mv.tobytes():
            self.err(path, "value", f"read {got!r}, model {mv!r}", "sc")

    def node(self, t, mv, got, path):
        k = t["k"]
        try:
            if k == "sc":
                self.scalar(t, mv, got, path)
            elif k == "str":
                self.reads += 1
                if not isinstance(got, str):
                    self.err(path, "type", f"expected str, got {type(got).__name__}")
                elif got != mv:
                    self.err(path, "value", f"read {got[:40]!r}, model {mv[:40]!r}", "str")
            elif k == "st":
                self.struct(t, mv, got, path)
            elif k == "ar":
                self.array(t, mv, got, path)
            elif k == "ref":
                if mv is None:
                    self.reads += 1
                    if got is not None:
                        self.err(path, "value", f"null reference read as {got!r}", "ref")
                elif got is None:
                    self.err(path, "value", "non-null reference read as None", "ref")
                else:
                    self.node(t["to"], mv, got, path + "->")
            elif k == "ur":
                if mv is None:
                    self.reads += 1
                    if got is not None:
                        self.err(path, "value", f"null union reference read as {got!r}", "ur")
                elif got is None:
                    self.err(path, "value", "non-null union reference read as None", "ur")
                else:
                    m = t["m"][mv[0]]
                    if type(got).__name__ != m["n"]:
                        self.err(path, "member", f"member type {type(got).__name__}, model {m['n']}", "ur")
                    else:
                        self.node(m, mv[1], got, path + f"->{mv[0]}")
        except Exception as e:  # accessor raised
            self.err(path, exc_kind(e), f"{type(e).__name__}: {e}", ar_sig(t) if k == "ar" else k)

    def struct(self, t, mv, got, path):
        if type(got).__name__ != t["n"]:
            self.err(path, "type", f"expected {t['n']}, got {type(got).__name__}")
            return
        for fn, ft in t["f"]:
            try:
                g = getattr(got, fn)
            except Exception as e:
                self.err(f"{path}.{fn}", exc_kind(e), f"{type(e).__name__}: {e}", ft["k"] if ft["k"] != "ar" else ar_sig(ft))
                continue
            self.node(ft, mv[fn], g, f"{path}.{fn}")
        if self.full:
            try:
                d = got._to_dict()
                if list(d) != [f[0] for f in t["f"]]:
                    self.err(path, "to_dict", f"keys {list(d)}")
                for fn, ft in t["f"]:
                    if ft["k"] == "sc":
                        self.scalar(ft, mv[fn], d[fn], f"{path}._to_dict()[{fn}]")
                    elif ft["k"] == "str":
                        if d[fn] != mv[fn]:
                            self.err(f"{path}._to_dict()[{fn}]", "value", f"{d[fn]!r}", "str")
            except Exception as e:
                self.err(path + "._to_dict()", exc_kind(e), f"{type(e).__name__}: {e}", "st")

    def array(self, t, mv, got, path):
        sig = ar_sig(t)
        if type(got).__name__ != t["n"]:
            self.err(path, "type", f"expected {t['n']}, got {type(got).__name__}")
            return
        try:
            shape = tuple(int(s) for s in got._shape)
        except Exception as e:
            self.err(path + "._shape", exc_kind(e), str(e), sig)
            return
        self.reads += 1
        if shape != mv.shape:
            self.err(path + "._shape", "shape", f"{shape}, model {mv.shape}", sig)
            return
        try:
            if int(len(got)) != int(np.prod(mv.shape)):
                self.err(path, "len", f"len {len(got)} shape {mv.shape}", sig)
        except Exception as e:
            self.err(path + ".__len__", exc_kind(e), str(e), sig)
        it = t["it"]
        nd = len(shape)
        for idx, v in mv.items.items():
            key = idx[0] if (nd == 1 and (idx[0] % 2 == 0)) else idx
            if self.full and nd > 0 and idx[0] % 3 == 1:
                key = npkey(idx)
                key = key[0] if nd == 1 else key
            try:
                g = got[key]
            except Exception as e:
                self.err(f"{path}{list(idx)}", exc_kind(e), f"{type(e).__name__}: {e}", sig)
                break
            self.node(it, v, g, f"{path}{list(idx)}")
        if it["k"] == "sc" and self.full:
            want = as_ndarray(t, mv)
            for meth in ("to_nplike", "to_nparray"):
                try:
                    a = getattr(got, meth)()
                except Exception as e:
                    self.err(f"{path}.{meth}()", exc_kind(e), f"{type(e).__name__}: {e}", sig)
                    continue
                self.reads += 1
                if tuple(a.shape) != mv.shape or a.dtype != want.dtype:
                    self.err(f"{path}.{meth}()", "shape", f"{a.shape} {a.dtype}, model {mv.shape} {want.dtype}", sig)
                elif np.ascontiguousarray(a).tobytes() != want.tobytes():
                    self.err(f"{path}.{meth}()", "value", f"{a.tolist()!r:.150}, model {want.tolist()!r:.150}", sig)


def read_root(t, h):
    """Value-level view of a root handle (String and UnionRef objects are
    handles; nested they read as str / member)."""
    if t["k"] == "str":
        return h.to_str()
    if t["k"] == "ur":
        return h.get()
    return h


def compare(t, mv, h, full=True, root=True):
    c = Cmp(full=full)
    try:
        got = read_root(t, h) if root else h
    except Exception as e:
        c.err("root", exc_kind(e), f"{type(e).__name__}: {e}", t["k"])
        return c
    c.node(t, mv, got, "root")
    return c


# --------------------------------------------------------------------------
# placement environments
# --------------------------------------------------------------------------
class Env:
    """A real CPU buffer with history: live neighbours (stamped), freed holes,
    poisoned dead bytes, and a Follower shadow that knows the live regions."""

    def __init__(self, rng, ctx=None, kind=None, cap=None, al=None, gs="rand", neighbours=None, poison=True):
        self.rng = rng
        self.ctx = ctx or xo.ContextCpu()
        self.kind = kind or rng.choice(["numpy", "numpy", "bytearray"])
        self.cap = rng.choice([0, 8, 64, 200, 200, 1000, 4096]) if cap is None else cap
        self.al = rng.choice([1, 2, 4, 8, 8, 8, 16, 32, 64]) if al is None else al
        self.gs = rng.choice([None, None, 64, 500]) if gs == "rand" else gs
        self.buf = bufmon.KINDS[self.kind](capacity=self.cap, context=self.ctx,
                                           default_alignment=self.al, grow_step=self.gs)
        if self.kind == "numpy":
            self.ctx._buffers.add(self.buf)
        self.fol = bufmon.Follower(self.buf)
        self.neigh = {}  # off -> (size, stamp bytes)
        self.do_poison = poison
        n = rng.choice([0, 1, 2, 3, 5]) if neighbours is None else neighbours
        offs = []
        for i in range(n):
            size = rng.choice([1, 5, 8, 16, 24, 40, 100])
            off = self.buf.allocate(size, align=rng.random() < 0.8)
            offs.append((off, size))
        keep = []
        for off, size in offs:
            if rng.random() < 0.4:
                self.buf.free(off, size)
            else:
                keep.append((off, size))
        for i, (off, size) in enumerate(keep):
            st = bytes(((j * 11 + 0x41 + i) & 0x7F) | 0x40 for j in range(size))
            bufmon.poke(self.buf, off, st)
            self.neigh[off] = (size, st)
        self.repoison()

    def placement(self):
        return dict(kind=self.kind, cap=self.cap, al=self.al, gs=self.gs, neighbours=len(self.neigh))

    def repoison(self):
        if self.do_poison:
            return bufmon.poison(self.buf, self.fol.sh.dead_intervals())
        return 0

    def neighbours_intact(self):
        raw = bufmon.raw_bytes(self.buf)
        return [off for off, (size, st) in self.neigh.items() if raw[off:off + size] != st]

    def add_neighbour(self, size=None):
        size = size or self.rng.choice([8, 16, 40])
        off = self.buf.allocate(size)
        st = bytes(((j * 7 + 0x23) & 0x7F) | 0x40 for j in range(size))
        bufmon.poke(self.buf, off, st)
        self.neigh[off] = (size, st)
        return off

    def force_growth(self):
        """Allocate until the storage is replaced; returns number of growths."""
        cap0 = self.buf.capacity
        guard = 0
        while self.buf.capacity == cap0 and guard < 10000:
            free = self.buf.get_free()
            self.add_neighbour(max(8, min(free, 4096) // 2 + 8))
            guard += 1
        self.repoison()
        return int(self.buf.capacity != cap0)

    def close(self):
        self.fol.close()


class Obs:
    """What happened to a buffer during one operation."""

    def __init__(self, env):
        self.env = env
        buf = env.buf
        self.before = bufmon.raw_bytes(buf)
        self.st = bufmon.state(buf)
        self.w0 = len(self.st.writes)
        self.e0 = len(self.st.events)
        env.fol.new_allocs = []

    def done(self):
        buf = self.env.buf
        self.after = bufmon.raw_bytes(buf)
        self.writes = self.st.writes[self.w0:]
        self.events = self.st.events[self.e0:]
        self.allocs = list(self.env.fol.new_allocs)
        self.changed = bufmon.diff_intervals(self.before, self.after)
        return self


def construct(env, cls, arg, mode, need_size=None, kwargs_form=False):
    """Build cls(arg) in env.buf with the given offset mode.
    mode: None | 'aligned' | 'packed' | 'explicit' (harness reserves need_size bytes itself)."""
    kw = dict(_buffer=env.buf)
    reserved = None
    if mode == "explicit":
        off = env.buf.allocate(need_size, align=True)
        reserved = (off, need_size)
        env.repoison()
        kw["_offset"] = off
    elif mode is not None:
        kw["_offset"] = mode
    if kwargs_form and isinstance(arg, dict):
        return cls(**arg, **kw), reserved
    return cls(arg, **kw), reserved


# --------------------------------------------------------------------------
# paths to leaves / compounds (labels agree with xv.decoder's extent labels)
# --------------------------------------------------------------------------
def nodes(t, mv, path=(), label="root", through_refs=True):
    """Yield (path, label, node type, node model value) for every node reachable
    from the root value; path steps are ('f', name) / ('i', idx); references are
    transparent for access (reading a reference yields its target)."""
    yield path, label, t, mv
    k = t["k"]
    if k == "st":
        for fn, ft in t["f"]:
            yield from nodes(ft, mv[fn], path + (("f", fn),), f"{label}.{fn}", through_refs)
    elif k == "ar":
        for idx in sorted(mv.items):
            yield from nodes(t["it"], mv.items[idx], path + (("i", idx),), f"{label}{list(idx)}", through_refs)
    elif k == "ref" and mv is not None and through_refs:
        yield from nodes(t["to"], mv, path, label + "->", through_refs)
    elif k == "ur" and mv is not None and through_refs:
        yield from nodes(t["m"][mv[0]], mv[1], path, label + f"->{mv[0]}", through_refs)


STATS = {}
_NPI = (None, np.int8, np.uint8, np.int16, None, np.int32, np.int64, np.uint16)


def npkey(idx, salt=0):
    """The same index, sometimes spelled with numpy integers of a narrow type (an index taken from an integer
    ndarray): deterministic in the index itself, so that replays repeat it."""
    if any(isinstance(i, (bool, np.bool_)) or not isinstance(i, (int, np.integer)) for i in idx):
        return idx
    dt = _NPI[(sum(int(i) for i in idx) * 7 + len(idx) + salt) % len(_NPI)]
    if dt is None or any(i < 0 for i in idx):
        return idx
    ii = np.iinfo(dt)
    if any(i > ii.max for i in idx):
        return idx
    STATS["numpy_integer_indices"] = STATS.get("numpy_integer_indices", 0) + 1
    return tuple(dt(i) for i in idx)


def get_path(root, path):
    o = root
    for st in path:
        if st[0] == "f":
            o = getattr(o, st[1])
        elif st[0] == "i":
            idx = npkey(st[1], 1)
            o = o[idx[0] if len(idx) == 1 else idx]
        # ('t',) : already the target
    return o


def set_path(root, path, value):
    path = [s for s in path if s[0] != "t"]
    parent = get_path(root, path[:-1])
    st = path[-1]
    if st[0] == "f":
        setattr(parent, st[1], value)
    else:
        idx = npkey(st[1], 2)
        parent[idx[0] if len(idx) == 1 else idx] = value


def get_model(t, mv, path):
    """Model value at path (references transparent)."""
    path = [s for s in path if s[0] != "t"]
    while True:
        k = t["k"]
        if k == "ref" and path:
            t = t["to"]
            continue
        if k == "ur" and path:
            t, mv = t["m"][mv[0]], mv[1]
            continue
        if not path:
            return t, mv
        st, path = path[0], path[1:]
        if k == "st":
            t, mv = dict((a, b) for a, b in t["f"])[st[1]], mv[st[1]]
        elif k == "ar":
            t, mv = t["it"], mv.items[st[1]]
        else:
            raise ValueError(k)


def set_model(t, mv, path, value):
    """Functional update of the model value at path (steps as above)."""
    path = [s for s in path if s[0] != "t"]
    if not path:
        return value
    st, rest = path[0], path[1:]
    k = t["k"]
    if k == "ref":
        return set_model(t["to"], mv, path, value)
    if k == "ur":
        return (mv[0], set_model(t["m"][mv[0]], mv[1], path, value))
    if k == "st":
        ft = dict((a, b) for a, b in t["f"])[st[1]]
        out = dict(mv)
        out[st[1]] = set_model(ft, mv[st[1]], rest, value)
        return out
    if k == "ar":
        items = dict(mv.items)
        items[st[1]] = set_model(t["it"], mv.items[st[1]], rest, value)
        return AVal(mv.shape, items)
    raise ValueError(k)
