"""E2 — buffer monitors, attached from outside (no source edits).

* event log of allocate / free / grow (outermost calls, growth inside allocate
  attributed to it) and of every write primitive (offset, nbytes);
* byte snapshots / diffs / poison of the native storage;
* Shadow: executable specification of a sorted, coalescing first-fit free list
  (used in lock-step by C04/C12, and in "follow" mode as the live-region oracle
  of C03/C08/C09);
* icontract contracts on the CPU copy primitives (C13) that *record* failures
  instead of raising, so that they can ride along under any workload.
"""
import weakref

import numpy as np

import xobjects as xo  # noqa: F401
from xobjects.context import XBuffer
from xobjects.context_cpu import BufferNumpy, BufferByteArray

KINDS = {"numpy": BufferNumpy, "bytearray": BufferByteArray}

_state = weakref.WeakKeyDictionary()
_installed = False
listeners = []  # callables(buf, event_dict) invoked after every alloc-log event


class BufState:
    def __init__(self):
        self.writes = []  # (op, offset, nbytes)
        self.events = []  # dicts
        self.depth = 0
        self.grows_inside = []
        self.logging = True


def state(buf):
    st = _state.get(buf)
    if st is None:
        st = _state[buf] = BufState()
    return st


def _emit(buf, ev):
    st = state(buf)
    if st.logging:
        st.events.append(ev)
    for fn in list(listeners):
        fn(buf, ev)


def install():
    """Wrap the allocator entry points and the write primitives on the classes."""
    global _installed
    if _installed:
        return
    _installed = True

    o_alloc, o_free, o_grow = XBuffer.allocate, XBuffer.free, XBuffer.grow

    def allocate(self, size, align=True):
        st = state(self)
        st.depth += 1
        outer = st.depth == 1
        if outer:
            st.grows_inside = []
            cap0 = self.capacity
        exc = None
        try:
            off = o_alloc(self, size, align)
        except BaseException as e:  # noqa
            exc = e
            raise
        finally:
            st.depth -= 1
            if outer:
                _emit(self, dict(op="alloc", size=size, align=bool(align),
                                 alignment=(self.default_alignment if align else 1),
                                 off=None if exc is not None else off,
                                 cap0=cap0, cap1=self.capacity,
                                 grows=list(st.grows_inside),
                                 exc=type(exc).__name__ if exc is not None else None))
        return off

    def grow(self, capacity):
        st = state(self)
        cap0 = self.capacity
        o_grow(self, capacity)
        if st.depth > 0:
            st.grows_inside.append((cap0, self.capacity))
        else:
            _emit(self, dict(op="grow", n=capacity, cap0=cap0, cap1=self.capacity))

    def free(self, offset, size):
        exc = None
        try:
            o_free(self, offset, size)
        except BaseException as e:  # noqa
            exc = e
            raise
        finally:
            _emit(self, dict(op="free", off=offset, size=size,
                             exc=type(exc).__name__ if exc is not None else None))

    XBuffer.allocate, XBuffer.free, XBuffer.grow = allocate, free, grow

    def wrap_write(cls, name, extent):
        orig = cls.__dict__[name]

        def wrapper(self, *a, **k):
            st = state(self)
            if st.logging:
                try:
                    off, n = extent(self, *a, **k)
                    st.writes.append((name, int(off), int(n)))
                except Exception:
                    st.writes.append((name, None, None))
            return orig(self, *a, **k)

        wrapper.__name__ = name
        wrapper.__wrapped__ = orig
        setattr(cls, name, wrapper)

    def ext_native(self, offset, source, source_offset, nbytes):
        return offset, nbytes

    def ext_buffer(self, offset, source):
        return offset, len(source)

    def ext_nplike(self, offset, dest_dtype, value):
        v = np.asarray(value)
        return offset, v.size * np.dtype(dest_dtype).itemsize

    for cls in (BufferNumpy, BufferByteArray):
        wrap_write(cls, "update_from_native", ext_native)
        wrap_write(cls, "update_from_buffer", ext_buffer)
        wrap_write(cls, "update_from_nplike", ext_nplike)


# --------------------------------------------------------------------------
# raw storage helpers
# --------------------------------------------------------------------------
def raw_bytes(buf):
    """Immutable copy of the whole native storage."""
    b = buf.buffer
    if isinstance(b, np.ndarray):
        return b.tobytes()
    return bytes(b)


def poke(buf, off, data):
    """Write bytes directly into native storage, bypassing every primitive."""
    b = buf.buffer
    if isinstance(b, np.ndarray):
        b[off:off + len(data)] = np.frombuffer(bytes(data), dtype=np.int8)
    else:
        b[off:off + len(data)] = bytes(data)


def poison_byte(p):
    return 0x80 | ((p * 7 + 3) & 0x7F)


_POISON = bytes(poison_byte(p) for p in range(1 << 16))


def poison_pattern(lo, hi):
    if hi <= len(_POISON):
        return _POISON[lo:hi]
    return bytes(poison_byte(p) for p in range(lo, hi))


def poison(buf, intervals):
    """Fill the given [lo,hi) intervals with the position-dependent pattern."""
    n = 0
    for lo, hi in intervals:
        if hi > lo:
            poke(buf, lo, poison_pattern(lo, hi))
            n += hi - lo
    return n


def diff_intervals(old, new):
    """Changed byte positions between two snapshots, as merged [lo,hi) list.
    `new` may be longer than `old` (storage replaced by growth): the extension
    is compared against zero bytes (fresh storage is zero-filled)."""
    if len(new) < len(old):
        return [(0, len(old))]
    a = np.frombuffer(old, dtype=np.uint8)
    b = np.frombuffer(new, dtype=np.uint8)
    if len(b) > len(a):
        # storage replaced by growth: the content of the new part is unspecified until somebody writes it
        # (writes there are still seen by the write log)
        b = b[:len(a)]
    idx = np.nonzero(a != b)[0]
    if len(idx) == 0:
        return []
    brk = np.nonzero(np.diff(idx) > 1)[0]
    starts = np.concatenate([[idx[0]], idx[brk + 1]])
    ends = np.concatenate([idx[brk], [idx[-1]]]) + 1
    return [(int(s), int(e)) for s, e in zip(starts, ends)]


def inside(lo, hi, allowed):
    """[lo,hi) subset of the union of allowed intervals (each [a,b))."""
    if hi <= lo:
        return True
    pos = lo
    for a, b in sorted(allowed):
        if a > pos:
            break
        if b > pos:
            pos = b
            if pos >= hi:
                return True
    return pos >= hi


# --------------------------------------------------------------------------
# shadow allocator: executable spec of a first-fit, coalescing free list
# --------------------------------------------------------------------------
def align_up(x, a):
    return (x + a - 1) // a * a


class Shadow:
    def __init__(self, capacity):
        self.cap = capacity
        self.free = [[0, capacity]] if capacity > 0 else []
        self.live = {}  # off -> size (size > 0)
        self.live0 = []  # zero-size regions handed out
        self.lost = 0

    def fit(self, size, alignment):
        for i, (s, e) in enumerate(self.free):
            o = align_up(s, alignment)
            if o + size <= e:
                return i, o
        return None

    def take(self, i, o, size):
        s, e = self.free[i]
        self.lost += o - s
        if o + size >= e:
            del self.free[i]
        else:
            self.free[i][0] = o + size
        if size > 0:
            self.live[o] = size
        else:
            self.live0.append(o)

    def take_at(self, o, size):
        """Follow mode: the implementation handed out [o,o+size); remove it from
        the free intervals whatever they are (bytes before it in the same free
        interval are lost to padding)."""
        for i, (s, e) in enumerate(self.free):
            if s <= o and o + size <= e:
                self.take(i, o, size)
                return True
        if size > 0:
            self.live[o] = size
        return False

    def grow_to(self, newcap):
        if newcap > self.cap:
            if self.free and self.free[-1][1] == self.cap:
                self.free[-1][1] = newcap
            else:
                self.free.append([self.cap, newcap])
        self.cap = newcap

    def release(self, off, size):
        if size <= 0:
            return
        self.live.pop(off, None)
        self.free.append([off, off + size])
        self.free.sort()
        out = [self.free[0]]
        for s, e in self.free[1:]:
            if s <= out[-1][1]:
                out[-1][1] = max(out[-1][1], e)
            else:
                out.append([s, e])
        self.free = out

    def total_free(self):
        return sum(e - s for s, e in self.free)

    def live_intervals(self):
        return [(o, o + s) for o, s in self.live.items()]

    def dead_intervals(self):
        """Everything that is not live: free space and padding lost."""
        out, pos = [], 0
        for o, e in sorted(self.live_intervals()):
            if o > pos:
                out.append((pos, o))
            pos = max(pos, e)
        if pos < self.cap:
            out.append((pos, self.cap))
        return out

    def is_live(self, lo, hi):
        return inside(lo, hi, self.live_intervals())


class Follower:
    """Keeps a Shadow in step with a real buffer by trusting the offsets the
    implementation returns (live-region oracle for C03/C08/C09/C10/C11)."""

    def __init__(self, buf):
        self.buf = weakref.ref(buf)
        self.sh = Shadow(buf.capacity)
        self.new_allocs = []  # (off, size) since last reset
        self.not_free = []  # allocations that were not inside free space
        listeners.append(self)

    def __call__(self, buf, ev):
        if buf is not self.buf():
            return
        sh = self.sh
        if ev["op"] == "alloc":
            for _, c1 in ev["grows"]:
                sh.grow_to(c1)
            sh.grow_to(ev["cap1"])
            if ev["off"] is not None:
                if not sh.take_at(ev["off"], ev["size"]) and ev["size"] > 0:
                    # the allocator handed out bytes that were not free (they belong to a live region)
                    self.not_free.append((ev["off"], ev["size"]))
                self.new_allocs.append((ev["off"], ev["size"]))
        elif ev["op"] == "grow":
            sh.grow_to(ev["cap1"])
        elif ev["op"] == "free" and ev["exc"] is None:
            sh.release(ev["off"], ev["size"])

    def close(self):
        if self in listeners:
            listeners.remove(self)


# --------------------------------------------------------------------------
# C13 contracts (icontract, recording instead of raising)
# --------------------------------------------------------------------------
contract_evals = {}
contract_failures = []
CONTRACT_MAXCAP = 1 << 16
_contracts_on = False


def _rec(name, ok, detail=None):
    contract_evals[name] = contract_evals.get(name, 0) + 1
    if not ok and len(contract_failures) < 50:
        contract_failures.append((name, detail))
    return True


def _kind(self):
    return "numpy" if isinstance(self, BufferNumpy) else "bytearray"


def _src_bytes(source):
    if isinstance(source, np.ndarray):
        return source.tobytes()
    try:
        return bytes(memoryview(source).cast("B"))
    except TypeError:
        return bytes(source)


def install_contracts():
    """Decorate the copy primitives of both CPU buffer kinds.  Every condition is
    a named function; failures are recorded (see `take_contract_failures`)."""
    global _contracts_on
    if _contracts_on:
        return
    _contracts_on = True
    import icontract

    class Broken(Exception):
        pass

    # ---- shared snapshot
    def snap_self(self):
        if self.capacity > CONTRACT_MAXCAP:
            return None
        return raw_bytes(self)

    # ---- update_from_buffer(self, offset, source)
    def ufb_src(source):
        return _src_bytes(source)

    def ufb_pre(self, offset, source):
        return _rec(_kind(self) + ".update_from_buffer.pre_in_capacity",
                    0 <= offset and offset + len(source) <= self.capacity,
                    dict(offset=offset, n=len(source), cap=self.capacity))

    def ufb_post(self, offset, source, OLD):
        if OLD.buf is None:
            return True
        new, n = raw_bytes(self), len(OLD.src)
        ok = (len(new) == len(OLD.buf) and new[offset:offset + n] == OLD.src
              and new[:offset] == OLD.buf[:offset] and new[offset + n:] == OLD.buf[offset + n:])
        return _rec(_kind(self) + ".update_from_buffer.post_exact", ok, dict(offset=offset, n=n))

    # ---- update_from_native(self, offset, source, source_offset, nbytes)
    def ufn_src(source):
        return _src_bytes(source)

    def ufn_pre(self, offset, source, source_offset, nbytes):
        return _rec(_kind(self) + ".update_from_native.pre_in_capacity",
                    0 <= offset and nbytes >= 0 and offset + nbytes <= self.capacity
                    and 0 <= source_offset and source_offset + nbytes <= len(_src_bytes(source)),
                    dict(offset=offset, n=nbytes, so=source_offset, cap=self.capacity))

    def ufn_post(self, offset, source, source_offset, nbytes, OLD):
        if OLD.buf is None:
            return True
        new = raw_bytes(self)
        want = OLD.src[source_offset:source_offset + nbytes]
        ok = (len(new) == len(OLD.buf) and new[offset:offset + nbytes] == want
              and new[:offset] == OLD.buf[:offset] and new[offset + nbytes:] == OLD.buf[offset + nbytes:])
        if source is not self.buffer:
            ok = ok and _src_bytes(source) == OLD.src
        return _rec(_kind(self) + ".update_from_native.post_exact", ok,
                    dict(offset=offset, n=nbytes, so=source_offset))

    # ---- update_from_nplike(self, offset, dest_dtype, value)
    def ufl_want(dest_dtype, value):
        v = np.asarray(value)
        return np.ascontiguousarray(v.astype(np.dtype(dest_dtype))).tobytes()

    def ufl_post(self, offset, dest_dtype, value, OLD):
        if OLD.buf is None:
            return True
        new, n = raw_bytes(self), len(OLD.want)
        ok = (len(new) == len(OLD.buf) and new[offset:offset + n] == OLD.want
              and new[:offset] == OLD.buf[:offset] and new[offset + n:] == OLD.buf[offset + n:])
        return _rec(_kind(self) + ".update_from_nplike.post_exact", ok,
                    dict(offset=offset, n=n, dtype=str(dest_dtype), shape=np.asarray(value).shape,
                         strides=np.asarray(value).strides))

    # ---- copy_to_native(self, dest, dest_offset, source_offset, nbytes)
    def ctn_dest(dest):
        return _src_bytes(dest)

    def ctn_post(self, dest, dest_offset, source_offset, nbytes, OLD):
        if OLD.buf is None:
            return True
        new, d = raw_bytes(self), _src_bytes(dest)
        ok = (new == OLD.buf and len(d) == len(OLD.dest)
              and d[dest_offset:dest_offset + nbytes] == OLD.buf[source_offset:source_offset + nbytes]
              and d[:dest_offset] == OLD.dest[:dest_offset]
              and d[dest_offset + nbytes:] == OLD.dest[dest_offset + nbytes:])
        return _rec(_kind(self) + ".copy_to_native.post_exact", ok,
                    dict(do=dest_offset, so=source_offset, n=nbytes))

    # ---- to_native / to_bytearray (self, offset, nbytes)
    def ext_post(name):
        def post(self, offset, nbytes, result, OLD):
            if OLD.buf is None:
                return True
            ok = (_src_bytes(result) == OLD.buf[offset:offset + nbytes]
                  and raw_bytes(self) == OLD.buf)
            return _rec(_kind(self) + f".{name}.post_exact", ok, dict(offset=offset, n=nbytes))
        post.__name__ = name + "_post"
        return post

    # ---- to_nplike(self, offset, dtype, shape)
    def tnl_post(self, offset, dtype, shape, result, OLD):
        if OLD.buf is None:
            return True
        n = int(np.prod(shape)) * np.dtype(dtype).itemsize
        ok = (tuple(result.shape) == tuple(int(s) for s in shape) and result.dtype == np.dtype(dtype)
              and result.tobytes() == OLD.buf[offset:offset + n] and raw_bytes(self) == OLD.buf)
        return _rec(_kind(self) + ".to_nplike.post_exact", ok, dict(offset=offset, n=n))

    def deco(fn, pre, post, snaps):
        f = icontract.ensure(post, error=Broken)(fn)
        for cap, name in snaps:
            f = icontract.snapshot(cap, name=name)(f)
        if pre is not None:
            f = icontract.require(pre, error=Broken)(f)
        return f

    for cls in (BufferNumpy, BufferByteArray):
        d = cls.__dict__
        cls.update_from_buffer = deco(d["update_from_buffer"], ufb_pre, ufb_post,
                                      [(snap_self, "buf"), (ufb_src, "src")])
        cls.update_from_native = deco(d["update_from_native"], ufn_pre, ufn_post,
                                      [(snap_self, "buf"), (ufn_src, "src")])
        cls.update_from_nplike = deco(d["update_from_nplike"], None, ufl_post,
                                      [(snap_self, "buf"), (ufl_want, "want")])
        cls.copy_to_native = deco(d["copy_to_native"], None, ctn_post,
                                  [(snap_self, "buf"), (ctn_dest, "dest")])
        cls.to_native = deco(d["to_native"], None, ext_post("to_native"), [(snap_self, "buf")])
        cls.to_bytearray = deco(d["to_bytearray"], None, ext_post("to_bytearray"), [(snap_self, "buf")])
        nl = deco(d["to_nplike"], None, tnl_post, [(snap_self, "buf")])
        cls.to_nplike = nl
        cls.to_nparray = nl


def take_contract_failures():
    out = list(contract_failures)
    del contract_failures[:]
    return out
