"""E1 — type AST, class builder, value / input-form / placement generators.

AST nodes (JSON-able dicts):
  {"k":"sc","t":"Int64"}                                    numeric scalar
  {"k":"str"}                                               String
  {"k":"st","n":name,"f":[[fname,T],...]}                   Struct
  {"k":"ar","n":name,"it":T,"dims":[int|None..],"ord":[..]} Array (ord[0] = slowest axis)
  {"k":"ref","to":T}                                        Ref[T]      (T struct|array)
  {"k":"ur","n":name,"m":[T,...]}                           UnionRef    (members struct|array)

Model values: numpy scalar | str | dict | AVal | None / value (ref) | None / (member index, value) (unionref).
"""
import itertools

import numpy as np

import xobjects as xo

SC = {
    "Int8": xo.Int8, "UInt8": xo.UInt8, "Int16": xo.Int16, "UInt16": xo.UInt16,
    "Int32": xo.Int32, "UInt32": xo.UInt32, "Int64": xo.Int64, "UInt64": xo.UInt64,
    "Float32": xo.Float32, "Float64": xo.Float64,
}
SC_NAMES = list(SC)
DT = {k: np.dtype(k.lower()) for k in SC}

_uid = itertools.count()


class CapStr(str):
    """Model value of a string created from an integer capacity: reads "" and keeps `cap` bytes of room."""

    def __new__(cls, cap):
        o = str.__new__(cls, "")
        o.cap = int(cap)
        return o

    def __reduce__(self):
        return (CapStr, (self.cap,))


def max_fit(s):
    """Largest utf-8 length that can later be assigned in place to a string created from `s`
    (stored size = 8 + slot(len+1) for text, 8 + capacity for a capacity; an update needs 8 + slot(len+1))."""
    if isinstance(s, CapStr):
        return (s.cap + 8) // 8 * 8 - 9
    return (len(s.encode("utf8")) + 1 + 7) // 8 * 8 - 1


class AVal:
    """Array model value: shape + items by index tuple."""

    __slots__ = ("shape", "items")

    def __init__(self, shape, items):
        self.shape = tuple(int(s) for s in shape)
        self.items = items

    def __repr__(self):
        return f"AVal{self.shape}"


# --------------------------------------------------------------------------
# static facts about an AST
# --------------------------------------------------------------------------
def is_static(t):
    k = t["k"]
    if k in ("sc", "ref", "ur"):
        return True
    if k == "str":
        return False
    if k == "st":
        return all(is_static(f[1]) for f in t["f"])
    if k == "ar":
        return all(d is not None for d in t["dims"]) and is_static(t["it"])
    raise ValueError(k)


def has_refs(t):
    k = t["k"]
    if k in ("ref", "ur"):
        return True
    if k == "st":
        return any(has_refs(f[1]) for f in t["f"])
    if k == "ar":
        return has_refs(t["it"])
    return False


def walk(t, seen=None):
    """All nodes (each named class once)."""
    if seen is None:
        seen = set()
    key = t.get("n")
    if key is not None:
        if key in seen:
            return
        seen.add(key)
    yield t
    k = t["k"]
    if k == "st":
        for _, ft in t["f"]:
            yield from walk(ft, seen)
    elif k == "ar":
        yield from walk(t["it"], seen)
    elif k == "ref":
        yield from walk(t["to"], seen)
    elif k == "ur":
        for m in t["m"]:
            yield from walk(m, seen)


def kinds_in(t):
    out = set()
    for n in walk(t):
        k = n["k"]
        if k == "ar":
            nd = len(n["dims"])
            dyn = any(d is None for d in n["dims"])
            cord = list(n["ord"]) == list(range(nd))
            out.add(f"ar{nd}{'d' if dyn else 's'}{'' if cord else 'o'}{'S' if is_static(n['it']) else 'D'}")
        else:
            out.add(k if k != "sc" else "sc:" + n["t"])
    return out


def shape_sig(t):
    """AST with names erased (the 'distinct' key of the evidence)."""
    k = t["k"]
    if k == "sc":
        return t["t"]
    if k == "str":
        return "str"
    if k == "st":
        return ["st"] + [shape_sig(f[1]) for f in t["f"]]
    if k == "ar":
        return ["ar", t["dims"], t["ord"], shape_sig(t["it"])]
    if k == "ref":
        return ["ref", shape_sig(t["to"])]
    if k == "ur":
        return ["ur"] + [shape_sig(m) for m in t["m"]]


def type_name(t):
    """The class name the library gives / sees for a node."""
    k = t["k"]
    if k == "sc":
        return SC[t["t"]].__name__
    if k == "str":
        return "String"
    if k == "ref":
        return "Ref" + type_name(t["to"])
    return t["n"]


def auto_array_name(it, dims):
    lst, i, parts = "NMOPQRSTUVWXYZABCDEFGHIJKLM", 0, []
    for d in dims:
        if d is None:
            parts.append(lst[i])
            i = (i + 1) % len(lst)
        else:
            parts.append(str(d))
    return "Arr" + "x".join(parts) + type_name(it)


# --------------------------------------------------------------------------
# type generation
# --------------------------------------------------------------------------
class TypeGen:
    def __init__(self, rng, *, max_depth=3, refs=True, strings=True, dyn=True, orders=True,
                 max_nd=3, max_fields=4, max_dim=3, scalars=None, prefix=None, readonly=0.0, ref_defaults=0.0, anon=0.2):
        self.anon = anon
        self.readonly = readonly
        self.ref_defaults = ref_defaults
        self.rng = rng
        self.max_depth, self.refs, self.strings, self.dyn = max_depth, refs, strings, dyn
        self.orders, self.max_nd, self.max_fields, self.max_dim = orders, max_nd, max_fields, max_dim
        self.scalars = scalars or SC_NAMES
        self.prefix = prefix or f"T{next(_uid)}"
        self.n = 0

    def name(self, k):
        self.n += 1
        return f"{self.prefix}{k}{self.n}"

    def scalar(self):
        r = self.rng
        return {"k": "sc", "t": r.choice(self.scalars) if r.random() < 0.6 else r.choice(["Int64", "Float64", "Int8", "UInt64", "Int32"])}

    def any(self, depth, allow=("sc", "str", "st", "ar", "ref", "ur")):
        r = self.rng
        opts = []
        for k in allow:
            if k == "str" and not self.strings:
                continue
            if k in ("ref", "ur") and not self.refs:
                continue
            if k in ("st", "ar", "ref", "ur") and depth <= 0:
                continue
            opts.append(k)
        wts = {"sc": 3, "str": 1.5, "st": 2, "ar": 3, "ref": 1, "ur": 0.8}
        k = r.choices(opts, [wts[o] for o in opts])[0]
        return getattr(self, "g_" + k)(depth)

    def g_sc(self, depth):
        return self.scalar()

    def g_str(self, depth):
        return {"k": "str"}

    def g_st(self, depth):
        r = self.rng
        nf = r.randint(1, self.max_fields)
        fs = [[f"f{i}", self.any(depth - 1)] for i in range(nf)]
        node = {"k": "st", "n": self.name("S"), "f": fs}
        if self.ref_defaults:
            # a reference field may declare a non-null default target (used when the field is not given at all)
            dflt = {}
            for fn, ft in fs:
                if ft["k"] == "ref" and r.random() < self.ref_defaults:
                    try:
                        dflt[fn] = plain(ft["to"], ValGen(r, nulls=1.0, zero_dims=0.0).value(ft["to"]))
                    except Exception:
                        pass
            if dflt:
                node["dflt"] = dflt
        if self.readonly:
            ro = [f[0] for f in fs if f[1]["k"] == "sc" and r.random() < self.readonly]
            if ro:
                node["ro"] = ro  # fields declared xo.Field(T, readonly=True)
        return node

    def g_ar(self, depth):
        r = self.rng
        nd = r.choices([1, 2, 3], [5, 3, 1.2])[0]
        nd = min(nd, self.max_nd)
        dims = []
        for _ in range(nd):
            if self.dyn and r.random() < 0.45:
                dims.append(None)
            else:
                dims.append(r.randint(1, self.max_dim))
        order = list(range(nd))
        if self.orders and nd > 1 and r.random() < 0.5:
            r.shuffle(order)
        it = self.any(depth - 1)
        if order == list(range(nd)) and r.random() < self.anon:
            # the automatically named class `item[shape]` itself, evaluated afresh wherever it is needed (every
            # evaluation gives a new class object of the same name, which is how such types are written in practice:
            # `xo.Ref[xo.Float64[:]]` here, `xo.Float64[:](...)` there); only for C order, the name does not tell the order
            return {"k": "ar", "n": auto_array_name(it, dims), "it": it, "dims": dims, "ord": order, "anon": True}
        return {"k": "ar", "n": self.name("A"), "it": it, "dims": dims, "ord": order}

    def compound(self, depth):
        """A struct/array type for a reference target or union member.  Sometimes an already generated class is
        used again (the same class as target of several references / member of several unions, at different
        member positions), which is how classes are shared in real type families."""
        pool = self.__dict__.setdefault("pool", [])
        if pool and self.rng.random() < 0.3:
            return self.rng.choice(pool)
        # mostly one level below the holder; sometimes a deeper target (array of arrays, array of references,
        # struct with array fields) whatever the depth left
        t = self.any(max(depth, 2 if self.rng.random() < 0.3 else 1), allow=("st", "ar"))
        pool.append(t)
        return t

    def g_ref(self, depth):
        return {"k": "ref", "to": self.compound(depth - 1)}

    def g_ur(self, depth):
        r = self.rng
        ms = []
        for _ in range(r.randint(1, 3)):
            m = self.compound(depth - 1)
            if not any(m is x or m["n"] == x["n"] for x in ms):  # a class (name) is a member of one union at most once
                ms.append(m)
        return {"k": "ur", "n": self.name("U"), "m": ms}

    def root(self, allow=("st", "ar", "str", "ur")):
        return self.any(self.max_depth, allow=allow)


# --------------------------------------------------------------------------
# class builder
# --------------------------------------------------------------------------
def build(t, cache=None):
    """AST -> xobjects type.  `cache` maps class names to built classes so that a
    named node appearing twice denotes one class."""
    if cache is None:
        cache = {}
    k = t["k"]
    if k == "sc":
        return SC[t["t"]]
    if k == "str":
        return xo.String
    if k == "ref":
        return xo.Ref[build(t["to"], cache)]
    n = t["n"]
    if k == "ar" and t.get("anon"):
        it = build(t["it"], cache)
        sl = tuple(slice(None) if d is None else d for d in t["dims"])
        cls = it[sl[0] if len(sl) == 1 else sl]
        assert cls.__name__ == n, (cls.__name__, n)
        return cls  # never cached: a new class object of the same name at every use
    if n in cache:
        return cache[n]
    if k == "st":
        ns = {}
        for fn, ft in t["f"]:
            ft_ = build(ft, cache)
            if fn in t.get("ro", ()):
                ns[fn] = xo.Field(ft_, readonly=True)
            elif fn in t.get("dflt", {}):
                ns[fn] = xo.Field(ft_, default=t["dflt"][fn])  # a declared default (also on reference fields)
            else:
                ns[fn] = ft_
        cls = type(n, (xo.Struct,), ns)
    elif k == "ar":
        it = build(t["it"], cache)
        nd = len(t["dims"])
        if list(t["ord"]) == list(range(nd)):
            sl = tuple(slice(None) if d is None else d for d in t["dims"])
        else:
            sl = tuple(slice(d, o) for d, o in zip(t["dims"], t["ord"]))
        if nd == 1:
            sl = sl[0]
        cls = type(n, (it[sl],), {})
    elif k == "ur":
        # "base": the name of another union class this one derives from (it still declares its own members)
        base = cache[t["base"]] if t.get("base") in cache else xo.UnionRef
        cls = type(n, (base,), {"_reftypes": [build(m, cache) for m in t["m"]]})
    else:
        raise ValueError(k)
    cache[n] = cls
    return cls


# --------------------------------------------------------------------------
# values
# --------------------------------------------------------------------------
class ValGen:
    def __init__(self, rng, max_dyn=3, distinct=True, nulls=0.25, zero_dims=0.12, cap_strings=0.0):
        self.cap_strings = cap_strings
        self.rng, self.max_dyn, self.distinct = rng, max_dyn, distinct
        self.nulls, self.zero_dims = nulls, zero_dims
        self.ctr = rng.randint(1, 40)

    def scalar(self, tname):
        r, dt = self.rng, DT[tname]
        self.ctr += 1
        if dt.kind in "iu":
            info = np.iinfo(dt)
            x = r.random()
            if x < 0.12:
                v = r.choice([info.min, info.max, 0, info.max - 1, info.min + 1 if info.min < 0 else 1])
            elif x < 0.8 or dt.itemsize == 1:
                v = self.ctr % (info.max + 1) if self.distinct else r.randint(info.min, info.max)
                if info.min < 0 and r.random() < 0.3:
                    v = -v
            else:
                v = r.randint(info.min, info.max)
            return dt.type(v)
        x = r.random()
        if x < 0.12:
            v = r.choice([0.0, -0.0, float("inf"), float("-inf"), float("nan"), 5e-324, 1e-45, -1.5, 3.4e38, 1.7e308])
        elif x < 0.8:
            v = self.ctr + 0.5
            if r.random() < 0.3:
                v = -v
        else:
            v = r.uniform(-1e6, 1e6)
        with np.errstate(all="ignore"):
            return dt.type(v)

    def string(self):
        r = self.rng
        self.ctr += 1
        if self.cap_strings and r.random() < self.cap_strings:
            return CapStr(r.choice([8, 9, 10, 13, 15, 16, 17, 23, 24, 30]))
        x = r.random()
        if x < 0.12:
            return ""
        if x < 0.45:
            n = r.choice([6, 7, 8, 9, 14, 15, 16, 17])
            s = f"s{self.ctr}"
            return (s + "abcdefghijklmnopqrstuvwxyz")[:n]
        if x < 0.65:
            return f"ü{self.ctr}é€" + r.choice(["", "ß", "日本", "😀"])
        return f"x{self.ctr}" + "q" * r.randint(0, 12)

    def value(self, t):
        r, k = self.rng, t["k"]
        if k == "sc":
            return self.scalar(t["t"])
        if k == "str":
            return self.string()
        if k == "st":
            return {fn: self.value(ft) for fn, ft in t["f"]}
        if k == "ar":
            shape = []
            for d in t["dims"]:
                if d is None:
                    shape.append(0 if r.random() < self.zero_dims else r.randint(1, self.max_dyn))
                else:
                    shape.append(d)
            return AVal(shape, {idx: self.value(t["it"]) for idx in np.ndindex(*shape)})
        if k == "ref":
            return None if r.random() < self.nulls else self.value(t["to"])
        if k == "ur":
            if r.random() < self.nulls:
                return None
            i = r.randrange(len(t["m"]))
            return (i, self.value(t["m"][i]))
        raise ValueError(k)

    def same_shape(self, t, mv, caps=None):
        """A fresh value with exactly the same structure (shapes, null pattern) as mv — for fitting
        assignments.  Strings keep their utf-8 length; when `caps` (the value tree the storage was created from)
        is given, a string gets any utf-8 length from 0 up to the length it was created with."""
        k = t["k"]
        if k == "sc":
            return self.scalar(t["t"])
        if k == "str":
            n = len(mv.encode("utf8"))
            if caps is not None:
                n0 = max_fit(caps)
                n = self.rng.choice([n0, n0, self.rng.randint(0, n0), max(0, n0 - 1), 0, min(n0, n)])
            self.ctr += 1
            if caps is not None and n >= 4 and self.rng.random() < 0.3:
                s = (f"{self.ctr}" + "\u00e9" * n)
                while len(s.encode("utf8")) > n:
                    s = s[:-1]
                return s + "k" * (n - len(s.encode("utf8")))
            s = (f"{self.ctr}" + "zyxwvutsrqponmlkjihgfedcba")[:n]
            return s if len(s) == n else s + "k" * (n - len(s))
        if k == "st":
            return {fn: self.same_shape(ft, mv[fn], None if caps is None else caps[fn]) for fn, ft in t["f"]}
        if k == "ar":
            return AVal(mv.shape, {i: self.same_shape(t["it"], v, None if caps is None else caps.items[i]) for i, v in mv.items.items()})
        renull = getattr(self, "renull", 0.0)
        if k in ("ref", "ur") and renull and self.rng.random() < renull:
            # (only where references are re-bound by the assignment anyway) another null pattern / member
            return None if self.rng.random() < 0.5 else self.value(t)
        if k == "ref":
            return None if mv is None else self.same_shape(t["to"], mv, caps)
        if k == "ur":
            if mv is None:
                return None
            sub = caps[1] if (caps is not None and caps[0] == mv[0]) else None
            return (mv[0], self.same_shape(t["m"][mv[0]], mv[1], sub))


def decap(t, v):
    """The value with every capacity-created string replaced by the plain empty string (what is known about the
    room of a string after it went through a copy: at least the room of its text)."""
    k = t["k"]
    if v is None:
        return None
    if k == "str":
        return "" if isinstance(v, CapStr) else v
    if k == "st":
        return {fn: decap(ft, v[fn]) for fn, ft in t["f"]}
    if k == "ar":
        return AVal(v.shape, {i: decap(t["it"], x) for i, x in v.items.items()})
    if k == "ref":
        return decap(t["to"], v)
    if k == "ur":
        return (v[0], decap(t["m"][v[0]], v[1]))
    return v


def merge_caps(t, caps, newv):
    """Capacity tree after assigning `newv` over storage created from `caps`: in-place parts keep the capacity
    fixed at creation, reference targets are (re)created from the new value."""
    k = t["k"]
    if k in ("ref", "ur"):
        return newv
    if k == "st":
        return {fn: merge_caps(ft, caps[fn], newv[fn]) for fn, ft in t["f"]}
    if k == "ar":
        return AVal(caps.shape, {i: merge_caps(t["it"], caps.items[i], newv.items[i]) for i in caps.items})
    return caps


# --------------------------------------------------------------------------
# input forms
# --------------------------------------------------------------------------
def to_list(av, conv):
    def rec(prefix, d):
        if d == len(av.shape):
            return conv(av.items[tuple(prefix)])
        return [rec(prefix + [i], d + 1) for i in range(av.shape[d])]
    return rec([], 0)


def list_ok(shape):
    """Nested lists cannot express a zero-length leading dimension followed by
    other dimensions (see DESIGN 1/E1 domain restrictions)."""
    return not (len(shape) > 1 and 0 in shape)


def plain(t, mv, rng=None, np_scalars=False):
    """Model value -> plain Python data accepted by the constructors."""
    k = t["k"]
    if k == "sc":
        if np_scalars and rng is not None and rng.random() < 0.5:
            return mv
        return mv.item()
    if k == "str":
        return mv.cap if isinstance(mv, CapStr) else mv
    if k == "st":
        return {fn: plain(ft, mv[fn], rng, np_scalars) for fn, ft in t["f"]}
    if k == "ar":
        if list_ok(mv.shape):
            return to_list(mv, lambda v: plain(t["it"], v, rng, np_scalars))
        return as_ndarray(t, mv, rng, layout="c")
    if k == "ref":
        return None if mv is None else plain(t["to"], mv, rng, np_scalars)
    if k == "ur":
        if mv is None:
            return None
        m = t["m"][mv[0]]
        return (m["n"], plain(m, mv[1], rng, np_scalars))


def as_ndarray(t, mv, rng=None, layout="c", inner=None):
    """Array model value -> ndarray (numeric for scalar items, object otherwise)."""
    it = t["it"]
    if it["k"] == "sc":
        a = np.zeros(mv.shape, dtype=DT[it["t"]])
        for i, v in mv.items.items():
            a[i] = v
    else:
        a = np.empty(mv.shape, dtype=object)
        conv = inner or (lambda v: plain(it, v, rng))
        for i, v in mv.items.items():
            a[i] = conv(v)
    if layout == "f":
        a = np.asfortranarray(a)
    elif layout == "strided":
        big = np.zeros(tuple(2 * s for s in mv.shape), dtype=a.dtype)
        view = big[tuple(slice(None, None, 2) for _ in mv.shape)]
        view[...] = a
        a = view
    return a


def tuple_free(t):
    """No unionref anywhere inside (its plain form is a tuple, which numpy object
    arrays would turn into a list)."""
    return not any(n["k"] == "ur" for n in walk(t))


def eq_model(t, a, b):
    k = t["k"]
    if k == "sc":
        return a.tobytes() == b.tobytes()
    if k == "str":
        return a == b
    if k == "st":
        return all(eq_model(ft, a[fn], b[fn]) for fn, ft in t["f"])
    if k == "ar":
        return a.shape == b.shape and all(eq_model(t["it"], a.items[i], b.items[i]) for i in a.items)
    if k == "ref":
        return (a is None) == (b is None) and (a is None or eq_model(t["to"], a, b))
    if k == "ur":
        return (a is None) == (b is None) and (a is None or (a[0] == b[0] and eq_model(t["m"][a[0]], a[1], b[1])))


def model_json(t, mv):
    k = t["k"]
    if mv is None:
        return None
    if k == "sc":
        return repr(mv.item())
    if k == "str":
        return mv
    if k == "st":
        return {fn: model_json(ft, mv[fn]) for fn, ft in t["f"]}
    if k == "ar":
        return {"shape": list(mv.shape), "items": [model_json(t["it"], mv.items[i]) for i in sorted(mv.items)][:40]}
    if k == "ref":
        return model_json(t["to"], mv)
    if k == "ur":
        return [mv[0], model_json(t["m"][mv[0]], mv[1])]


def diff_model(t, a, b, path="root"):
    """First difference between two model values: (path, node kind) or None."""
    k = t["k"]
    if (a is None) != (b is None):
        return path, k
    if a is None:
        return None
    if k == "sc":
        return None if a.tobytes() == b.tobytes() and a.dtype == b.dtype else (path, "sc")
    if k == "str":
        return None if a == b else (path, "str")
    if k == "st":
        for fn, ft in t["f"]:
            d = diff_model(ft, a[fn], b[fn], f"{path}.{fn}")
            if d:
                return d
        return None
    if k == "ar":
        if a.shape != b.shape:
            return path + "._shape", "ar"
        for i in sorted(a.items):
            d = diff_model(t["it"], a.items[i], b.items[i], f"{path}{list(i)}")
            if d:
                return d
        return None
    if k == "ref":
        return diff_model(t["to"], a, b, path + "->")
    if k == "ur":
        if a[0] != b[0]:
            return path, "ur"
        return diff_model(t["m"][a[0]], a[1], b[1], path + f"->{a[0]}")
