"""E6 — host-executing stand-ins for `cupy` and `pyopencl`.

The library's own ContextCupy / ContextPyopencl (`build_kernels`, header
assembly, `extern "C"` wrapping, specialisation, `Kernel*.__call__`, argument
conversion, launch geometry) run unchanged; only the module globals `cupy`,
`cl`, `cla` of xobjects.context_cupy / xobjects.context_pyopencl are replaced.

  cupy.RawModule(code=...)            -> compiles the CUDA-specialised source as C++ on the host with
                                         __global__/__device__ defined away and threadIdx/blockIdx/blockDim
                                         provided; get_function(name) returns f((grid,),(block,),args,shared_mem=)
                                         whose launch loop (for block, for thread) is generated C.
  cl.Program(ctx, src).build(options) -> compiles the OpenCL-specialised source with clang's OpenCL C front end
                                         (-x cl) to a host object; attribute <kernel> is f(queue,(n,),None,*args)
                                         looping get_global_id(0) over 0..n-1 in generated C.
Compilation is lazy (first call of a kernel), so recording the source text costs nothing.
"""
import ctypes
import os
import re
import subprocess
import tempfile
import types

import numpy as np

CLANG, CLANGXX = "clang", "clang++"
CL_FLAGS = ["-x", "cl", "-Xclang", "-finclude-default-header", "-target", "x86_64-unknown-linux-gnu", "-O1", "-fPIC"]
CUDA_PRELUDE = ('struct _xv_d3{unsigned x,y,z;};\nextern "C" { _xv_d3 threadIdx, blockIdx, blockDim; }\n')
recorded = []  # (target, source text) in the order the library handed them over
launch_log = []  # (target, kernel, geometry)
_workdir = None


def workdir():
    global _workdir
    if _workdir is None:
        _workdir = tempfile.mkdtemp(prefix="xvgpu_")
    return _workdir


def cleanup():
    global _workdir
    if _workdir is not None:
        import shutil

        shutil.rmtree(_workdir, ignore_errors=True)
        _workdir = None


class CompileError(Exception):
    pass


def _run(cmd):
    p = subprocess.run(cmd, capture_output=True, text=True, timeout=180)
    if p.returncode != 0:
        raise CompileError(" ".join(cmd[:6]) + " ...\n" + p.stderr[-3000:])


QUAL = {"const", "__global", "__global__", "restrict", "__restrict__", "__restrict", "volatile", "__private", "global"}
CT = {"int8_t": ctypes.c_int8, "uint8_t": ctypes.c_uint8, "int16_t": ctypes.c_int16, "uint16_t": ctypes.c_uint16,
      "int32_t": ctypes.c_int32, "uint32_t": ctypes.c_uint32, "int64_t": ctypes.c_int64, "uint64_t": ctypes.c_uint64,
      "int": ctypes.c_int, "float": ctypes.c_float, "double": ctypes.c_double, "long": ctypes.c_long,
      "unsigned": ctypes.c_uint, "char": ctypes.c_char}


def parse_signature(src, name):
    """-> list of (base C type, is_pointer) for the definition `void name(...)`."""
    m = re.search(r"\bvoid\s+%s\s*\(([^)]*)\)\s*\{" % re.escape(name), src)
    if m is None:
        raise CompileError(f"kernel {name} not found in source")
    out = []
    body = re.sub(r"/\*.*?\*/", " ", m.group(1), flags=re.S)
    for a in body.split(","):
        a = a.strip()
        if not a or a == "void":
            continue
        ptr = "*" in a
        toks = [t for t in re.findall(r"\w+", a)]
        toks = [t for t in toks if t not in QUAL]
        base = toks[0] if len(toks) >= 2 else toks[0]
        if base == "unsigned" and len(toks) > 2:
            base = "unsigned"
        out.append((base, ptr))
    return out


def _ptr(v):
    """address of the first byte of a buffer-like argument"""
    if isinstance(v, np.ndarray):
        return v.ctypes.data
    a = np.asarray(v)
    return a.ctypes.data


def _conv(sig, args):
    out = []
    if len(sig) != len(args):
        raise TypeError(f"kernel takes {len(sig)} arguments, {len(args)} given")
    for (base, ptr), v in zip(sig, args):
        if ptr:
            out.append(ctypes.c_void_p(_ptr(v)))
        else:
            ct = CT.get(base)
            if ct is None:  # opaque object pointer typedef (xobject)
                out.append(ctypes.c_void_p(_ptr(v)))
            else:
                out.append(ct(v.item() if isinstance(v, np.generic) else v))
    return out


# --------------------------------------------------------------------------
# fake cupy
# --------------------------------------------------------------------------
class FakeCupyArray(np.ndarray):
    def get(self):
        return np.array(self)


class RawModule:
    def __init__(self, code=None, **kw):
        self.code = code
        recorded.append(("cuda", code))
        self._lib = None
        self._sigs = {}
        self._names = []

    def get_function(self, name):
        self._names.append(name)
        return _CudaFunction(self, name)

    def _build(self):
        if self._lib is not None:
            return
        d = tempfile.mkdtemp(dir=workdir())
        launch = []
        for nm in self._names:
            sig = self._sigs[nm] = parse_signature(self.code, nm)
            params = ", ".join(f"{'void*' if p or b not in CT else b} a{i}" for i, (b, p) in enumerate(sig))
            call = ", ".join(
                (f"({b}*)a{i}" if p else (f"({b})a{i}" if b not in CT else f"a{i}")) for i, (b, p) in enumerate(sig))
            launch.append(
                f'extern "C" void xv_launch_{nm}(unsigned grid, unsigned block{", " if params else ""}{params}){{\n'
                f"  blockDim.x=block; blockDim.y=1; blockDim.z=1;\n"
                f"  for(unsigned b=0;b<grid;b++) for(unsigned t=0;t<block;t++){{ blockIdx.x=b; threadIdx.x=t; {nm}({call}); }}\n}}\n")
        src = os.path.join(d, "m.cu.cpp")
        with open(src, "w") as f:
            f.write(CUDA_PRELUDE + self.code + "\n" + "\n".join(launch))
        so = os.path.join(d, "m.so")
        _run([CLANGXX, "-x", "c++", "-shared", "-fPIC", "-O1", "-D__global__=", "-D__device__=", "-D__restrict__=", "-w", src, "-o", so])
        self._lib = ctypes.CDLL(so)


class _CudaFunction:
    def __init__(self, mod, name):
        self.mod, self.name = mod, name

    def __call__(self, grid, block, args, shared_mem=0):
        self.mod._build()
        launch_log.append(("cuda", self.name, (int(grid[0]), int(block[0]))))
        fn = getattr(self.mod._lib, "xv_launch_" + self.name)
        fn.restype = None
        fn(ctypes.c_uint(int(grid[0])), ctypes.c_uint(int(block[0])), *_conv(self.mod._sigs[self.name], args))


def make_fake_cupy():
    m = types.SimpleNamespace()
    m.ndarray = FakeCupyArray
    m.RawModule = RawModule
    m.uint8 = np.uint8

    def zeros(shape=None, dtype=float, **kw):
        return np.zeros(shape, dtype=dtype).view(FakeCupyArray)

    def array(a, **kw):
        return np.array(a).view(FakeCupyArray)

    m.zeros, m.array = zeros, array
    m.cuda = types.SimpleNamespace(get_device_id=lambda: 0, Device=lambda d: types.SimpleNamespace(use=lambda: None))
    return m


# --------------------------------------------------------------------------
# fake pyopencl
# --------------------------------------------------------------------------
class FakeClBuffer:
    pass


class FakeClArray:
    """stand-in for pyopencl.array.Array over host memory"""

    def __init__(self, np_array):
        self._a = np_array
        self.base_data = np_array.view(np.uint8).reshape(-1)
        self.offset = 0
        self.dtype = np_array.dtype
        self.shape = np_array.shape

    def get(self):
        return np.array(self._a)


class Program:
    def __init__(self, context, source):
        self.source = source
        recorded.append(("opencl", source))
        self._lib = None
        self._sigs = {}
        self.options = None

    def build(self, options=None, **kw):
        self.options = options
        return self

    def __getattr__(self, name):
        if name.startswith("_"):
            raise AttributeError(name)
        return _ClFunction(self, name)

    def _build(self, names):
        d = tempfile.mkdtemp(dir=workdir())
        std = "-cl-std=CL2.0"
        if self.options and "-cl-std=" in self.options:
            std = [o for o in self.options.split() if o.startswith("-cl-std=")][0]
        src = os.path.join(d, "k.cl")
        with open(src, "w") as f:
            f.write(self.source)
        obj = os.path.join(d, "k.o")
        _run([CLANG] + CL_FLAGS + [std, "-w", "-c", src, "-o", obj])
        drv = ["#include <stddef.h>", "static size_t xv_cur;",
               'size_t xv_gid(unsigned d) __asm__("_Z13get_global_idj");', "size_t xv_gid(unsigned d){ return d==0 ? xv_cur : 0; }"]
        for nm in names:
            sig = self._sigs[nm] = parse_signature(self.source, nm)
            cmap = {"int64_t": "long", "uint64_t": "unsigned long", "int32_t": "int", "uint32_t": "unsigned int",
                    "int16_t": "short", "uint16_t": "unsigned short", "int8_t": "signed char", "uint8_t": "unsigned char"}
            tys = [("void*" if (p or b not in CT) else cmap.get(b, b)) for b, p in sig]
            drv.append(f"void {nm}({', '.join(tys) or 'void'});")
            params = ", ".join(f"{t} a{i}" for i, t in enumerate(tys))
            drv.append(f"void xv_launch_{nm}(size_t n{', ' if params else ''}{params}){{ for(xv_cur=0;xv_cur<n;xv_cur++) {nm}({', '.join(f'a{i}' for i in range(len(tys)))}); }}")
        dsrc = os.path.join(d, "drv.c")
        with open(dsrc, "w") as f:
            f.write("\n".join(drv))
        so = os.path.join(d, "k.so")
        _run([CLANG, "-shared", "-fPIC", "-O1", "-w", dsrc, obj, "-o", so])
        self._lib = ctypes.CDLL(so)
        self._built = set(names)


class _ClFunction:
    def __init__(self, prg, name):
        self.prg, self.name = prg, name

    def __call__(self, queue, global_size, local_size, *args):
        prg = self.prg
        if prg._lib is None or self.name not in prg._built:
            prg._build(sorted(set(getattr(prg, "_built", set())) | {self.name}))
        launch_log.append(("opencl", self.name, (int(global_size[0]),)))
        fn = getattr(prg._lib, "xv_launch_" + self.name)
        fn.restype = None
        fn(ctypes.c_size_t(int(global_size[0])), *_conv(prg._sigs[self.name], args))
        return types.SimpleNamespace(wait=lambda: None)


def make_fake_cl():
    cl = types.SimpleNamespace()
    plat = types.SimpleNamespace(name="xv-host", get_devices=lambda: [dev])
    dev = types.SimpleNamespace(name="xv-host-device", platform=plat)
    cl.create_some_context = lambda interactive=False: types.SimpleNamespace(devices=[dev])
    cl.Context = lambda devices: types.SimpleNamespace(devices=devices)
    cl.CommandQueue = lambda ctx: types.SimpleNamespace(context=ctx)
    cl.get_platforms = lambda: [plat]
    cl.Buffer = FakeClBuffer
    cl.Program = Program
    cl.mem_flags = types.SimpleNamespace(READ_WRITE=1)
    cla = types.SimpleNamespace(Array=FakeClArray)
    cl.array = cla
    return cl, cla


_installed = False


def install():
    """Replace the module globals used by the two GPU context modules."""
    global _installed
    if _installed:
        return
    _installed = True
    import xobjects.context_cupy as cc
    import xobjects.context_pyopencl as cp

    cc.cupy = make_fake_cupy()
    cp.cl, cp.cla = make_fake_cl()
