"""C17 — kernel calls deliver every argument and the return value faithfully."""
import numpy as np

import xobjects as xo
from xv import bufmon
from xv.typegen import DT, SC, _uid
from xv.model import Env, exc_kind
from xv.props.common import flush_contracts

xo.general._print.suppress = True
bufmon.install()

ID = "C17"
LEVEL = "exploration"
N_QUICK, N_THOROUGH = 150000, 1000000
T_QUICK, T_THOROUGH = 70, 1500
FLOORS = {"scalar_echo_calls": 20000, "scalar_extremes": 3000, "object_address_calls": 5000, "addresses_after_growth": 800,
          "pointer_arg_calls": 3000, "xobject_array_pointer_calls": 200, "slice_pointer_calls": 200, "noncontiguous_2d_pointer_calls": 200, "refusals_checked": 3000, "calls_via_attribute_dispatch": 5000, "calls_after_rebuilding_a_kernel_name": 100,
          "mixed_signature_calls": 500, "ctx:serial": 1000, "ctx:openmp": 1000,
          "calls_with_count_zero": 2000, "empty_xobject_array_pointer_calls": 200}
FLOORS.update({f"echo:{k}": 800 for k in SC})
RULE = ("echo kernels compiled once per worker in a serial and an OpenMP ContextCpu: id_<T>(x) for the 10 scalar types, "
        "addr_of/first8 for struct/array/unionref objects, paddr/first for pointer-to-scalar arguments, a 7-argument mixed "
        "kernel; cases: scalar extremes and random values in several input forms come back bit-exact; objects at any "
        "offset, several per buffer, before and after forced growth arrive as pointer to their first byte; ndarray, "
        "ndarray slices and xobject numeric arrays (also without items) arrive as pointer to their first element; a kernel whose description names its count argument (n_threads=\"n\") is an ordinary call for every n, also 0; positional / missing / "
        "extra / mis-named arguments and arrays of the wrong element type are refused before the C function runs (call "
        "counter unchanged). distinct = (case kind, context, type, form).")
ASSUMPTIONS = ["values offered for scalar arguments are representable in the declared C type"]

PTR_T = ["Float64", "Float32", "Int64", "Int32", "Int16", "Int8", "UInt8", "UInt64"]
_S = {}


def setup(w):
    pre = f"K{next(_uid)}"

    class PS(xo.Struct):
        a = xo.Int64
        b = xo.Float64
    PS = type(pre + "PS", (xo.Struct,), {"a": xo.Int64, "b": xo.Float64, "s": xo.String})
    PA = type(pre + "PA", (xo.Int64[:],), {})
    PB = type(pre + "PB", (xo.Float64[2, 3],), {})
    PU = type(pre + "PU", (xo.UnionRef,), {"_reftypes": [PS, PA]})
    src = ["static int64_t ncalls = 0;", "int64_t get_ncalls(void){ return ncalls; }"]
    kern = {"get_ncalls": xo.Kernel(args=[], ret=xo.Arg(xo.Int64))}
    for tn, T in SC.items():
        ct = T._c_type
        src.append(f"{ct} id_{tn}({ct} x){{ ncalls++; return x; }}")
        kern[f"id_{tn}"] = xo.Kernel(args=[xo.Arg(T, name="x")], ret=xo.Arg(T))
    for nm, cls in (("PS", PS), ("PA", PA), ("PB", PB), ("PU", PU)):
        cn = cls._c_type
        src.append(f"int64_t addr_{nm}({cn} obj){{ ncalls++; return (int64_t)(char*)obj; }}")
        src.append(f"int64_t first8_{nm}({cn} obj){{ ncalls++; return *(int64_t*)(char*)obj; }}")
        kern[f"addr_{nm}"] = xo.Kernel(args=[xo.Arg(cls, name="obj")], ret=xo.Arg(xo.Int64))
        kern[f"first8_{nm}"] = xo.Kernel(args=[xo.Arg(cls, name="obj")], ret=xo.Arg(xo.Int64))
    for tn in PTR_T:
        ct = SC[tn]._c_type
        src.append(f"int64_t paddr_{tn}({ct}* p){{ ncalls++; return (int64_t)(char*)p; }}")
        src.append(f"{ct} first_{tn}(const {ct}* p){{ ncalls++; return p[0]; }}")
        src.append(f"void store_{tn}({ct}* p, {ct} v){{ ncalls++; p[0]=v; }}")
        kern[f"paddr_{tn}"] = xo.Kernel(args=[xo.Arg(SC[tn], pointer=True, name="p")], ret=xo.Arg(xo.Int64))
        kern[f"first_{tn}"] = xo.Kernel(args=[xo.Arg(SC[tn], pointer=True, const=True, name="p")], ret=xo.Arg(SC[tn]))
        kern[f"store_{tn}"] = xo.Kernel(args=[xo.Arg(SC[tn], pointer=True, name="p"), xo.Arg(SC[tn], name="v")])
    # a kernel whose description names the argument that carries the iteration count (n_threads="n"); its arguments and
    # return value are delivered like any other, also when n is 0
    src.append("double echo_n(double x, int64_t n, int64_t* out){ ncalls++; out[0] = n + 1; return x; }")
    kern["echo_n"] = xo.Kernel(args=[xo.Arg(xo.Float64, name="x"), xo.Arg(xo.Int64, name="n"), xo.Arg(xo.Int64, pointer=True, name="out")],
                               ret=xo.Arg(xo.Float64), n_threads="n")
    src.append("""void mix(int8_t a, double b, %s s, int64_t* p, uint64_t c, float d, %s arr, int64_t* out){
  ncalls++; out[0]=a; memcpy(&out[1],&b,8); out[2]=(int64_t)(char*)s; out[3]=(int64_t)(char*)p; memcpy(&out[4],&c,8);
  out[5]=0; memcpy(&out[5],&d,4); out[6]=(int64_t)(char*)arr; }""" % (PS._c_type, PA._c_type))
    kern["mix"] = xo.Kernel(args=[xo.Arg(xo.Int8, name="a"), xo.Arg(xo.Float64, name="b"), xo.Arg(PS, name="s"),
                                  xo.Arg(xo.Int64, pointer=True, name="p"), xo.Arg(xo.UInt64, name="c"),
                                  xo.Arg(xo.Float32, name="d"), xo.Arg(PA, name="arr"),
                                  xo.Arg(xo.Int64, pointer=True, name="out")])
    ctxs = {}
    for name, c in (("serial", xo.ContextCpu()), ("openmp", xo.ContextCpu(omp_num_threads=2))):
        c._compile_kernels_info = False
        import copy
        c.add_kernels(sources=["#include <string.h>\n" + "\n".join(src)], kernels=copy.deepcopy(kern) if False else _clone(kern),
                      extra_compile_args=("-O0", "-w"), extra_link_args=())
        ctxs[name] = c
    _S.update(PS=PS, PA=PA, PB=PB, PU=PU, ctxs=ctxs)


class _Kernels:
    """Both documented ways to reach a kernel: ctx.kernels.<name>(...) (attribute: goes through the dispatcher that
    refuses positional arguments) and ctx.kernels[<name>](...)."""

    def __init__(self, kernels, rng, w):
        self.k, self.rng, self.w = kernels, rng, w

    def __getitem__(self, name):
        if self.rng.random() < 0.6:
            self.w.count("calls_via_attribute_dispatch")
            return getattr(self.k, name)
        return self.k[name]


def _clone(kern):
    out = {}
    for k, v in kern.items():
        out[k] = xo.Kernel(args=[xo.Arg(a.atype, pointer=a.pointer, name=a.name, const=a.const) for a in v.args],
                           ret=None if v.ret is None else xo.Arg(v.ret.atype, pointer=v.ret.pointer), n_threads=v.n_threads)
    return out


def base_of(buf):
    return int(np.frombuffer(buf.buffer, dtype="int8").ctypes.data)


def scalar_values(rng, tn, w):
    dt = DT[tn]
    out = []
    if dt.kind in "iu":
        info = np.iinfo(dt)
        out += [info.min, info.max, 0, 1, info.max - 1]
        w.count("scalar_extremes", 5)
        out += [rng.randint(info.min, info.max) for _ in range(6)]
        return [dt.type(v) for v in out]
    fi = np.finfo(dt)
    out = [0.0, -0.0, float("inf"), float("-inf"), float("nan"), float(fi.max), float(fi.tiny), float(fi.smallest_subnormal), -1.5]
    w.count("scalar_extremes", len(out))
    out += [rng.uniform(-1e9, 1e9) for _ in range(4)]
    with np.errstate(all="ignore"):
        return [dt.type(v) for v in out]


def run_case(w, rng):
    cname = rng.choice(["serial", "openmp"])
    ctx = _S["ctxs"][cname]
    K = _Kernels(ctx.kernels, rng, w)
    w.count("ctx:" + cname)
    kind = rng.choice(["echo", "echo", "objects", "objects", "pointers", "refusals", "mix"])
    if rng.random() < 0.004:
        kind = "rebuild"
    seen = set()
    info = dict(kind=kind, ctx=cname)

    def viol(mech, msg):
        if mech not in seen:
            seen.add(mech)
            w.violation(mech, msg, info)

    try:
        if kind == "rebuild":
            # a kernel name is built, called, then built again with another declaration on the same context:
            # every way of reaching it must then use the new declaration
            c2 = xo.ContextCpu()
            c2._compile_kernels_info = False
            nm = f"xv_echo_{next(_uid)}"

            def build(T):
                ct = T._c_type
                c2.add_kernels(sources=[f"{ct} {nm}({ct} x){{ return x; }}\nint64_t {nm}_n(const {ct}* p){{ return (int64_t)sizeof(p[0]); }}"],
                               kernels={nm: xo.Kernel(args=[xo.Arg(T, name="x")], ret=xo.Arg(T)),
                                        nm + "_n": xo.Kernel(args=[xo.Arg(T, pointer=True, const=True, name="p")], ret=xo.Arg(xo.Int64))},
                               extra_compile_args=("-O0", "-w"), extra_link_args=())
            T1, T2 = rng.choice([(xo.Float32, xo.Float64), (xo.Int32, xo.Int64), (xo.Int8, xo.Int64)])
            build(T1)
            getattr(c2.kernels, nm)(x=1)
            c2.kernels[nm](x=1)
            build(T2)
            val = 0.1 if T2 is xo.Float64 else 2 ** 40 + 3
            for how, fn in (("attribute", getattr(c2.kernels, nm)), ("item", c2.kernels[nm])):
                got = fn(x=val)
                w.count("calls_after_rebuilding_a_kernel_name")
                if T2._dtype.type(got).tobytes() != T2._dtype.type(val).tobytes():
                    viol(f"rebuilt-kernel-uses-old-declaration|{how}", f"{nm}(x={val!r}) returned {got!r} after the kernel was rebuilt for {T2.__name__}")
            arr = np.zeros(3, dtype=T2._dtype)
            try:
                sz = getattr(c2.kernels, nm + "_n")(p=arr)
                if int(sz) != T2._dtype.itemsize:
                    viol("rebuilt-kernel-uses-old-declaration|pointer", f"element size seen {sz}")
            except Exception as e:
                viol("rebuilt-kernel-refuses-array-of-the-new-type", f"{type(e).__name__}: {e}")
            w.case(["rebuild", T1.__name__, T2.__name__], None)
        elif kind == "echo":
            tn = rng.choice(list(SC))
            dt = DT[tn]
            for v in scalar_values(rng, tn, w):
                form = rng.choice(["python", "numpy", "other-numpy"])
                if form == "python":
                    arg = v.item()
                elif form == "numpy":
                    arg = v
                else:
                    arg = np.float64(v) if dt.kind == "f" else (np.int64(v) if -2 ** 63 <= int(v) < 2 ** 63 else np.uint64(v))
                try:
                    r = K[f"id_{tn}"](x=arg)
                except Exception as e:
                    viol(f"echo-{exc_kind(e)}|{tn}|{form}", f"id_{tn}({arg!r}): {type(e).__name__}: {e}")
                    continue
                w.count("scalar_echo_calls")
                w.count("echo:" + tn)
                with np.errstate(all="ignore"):
                    try:
                        back = dt.type(r)
                    except Exception:
                        back = None
                ok = back is not None and (back.tobytes() == v.tobytes() or (dt.kind == "f" and back != back and v != v))
                if not ok:
                    viol(f"scalar-not-faithful|{tn}", f"id_{tn}({arg!r}) returned {r!r}")
            # the kernel whose description names its count argument: the call is an ordinary call for every n, also 0
            for nn in (0, rng.choice([1, 3, 1000]), 0):
                xx = rng.choice([1.5, -0.0, 1e300, float(rng.randint(-50, 50))])
                out = np.full(2, -7, dtype=np.int64)
                n0 = int(K["get_ncalls"]())
                try:
                    r = K["echo_n"](x=xx, n=nn, out=out)
                except Exception as e:
                    viol(f"echo-{exc_kind(e)}|count-argument", f"echo_n(x={xx!r}, n={nn}): {type(e).__name__}: {e}")
                    continue
                w.count("calls_of_kernel_with_named_count_argument")
                if nn == 0:
                    w.count("calls_with_count_zero")
                if r is None or np.float64(r).tobytes() != np.float64(xx).tobytes():
                    viol("return-value-not-faithful|count-argument", f"echo_n(x={xx!r}, n={nn}) returned {r!r}")
                if int(out[0]) != nn + 1 or int(K["get_ncalls"]()) != n0 + 1:
                    viol("c-function-did-not-run|count-argument", f"echo_n(n={nn}): out[0]={int(out[0])} (expected {nn + 1}), calls {int(K['get_ncalls']()) - n0}")
            w.case(["echo", cname, tn], sample=dict(info, type=tn) if rng.random() < 0.005 else None)
        elif kind == "objects":
            env = Env(rng, ctx=xo.ContextCpu() if rng.random() < 0.5 else ctx)
            try:
                objs = []
                for step in range(rng.randint(2, 7)):
                    r = rng.random()
                    if r < 0.2 and objs:
                        g = env.force_growth()
                        for o in objs:
                            o[2] = True
                        continue
                    nm = rng.choice(["PS", "PA", "PB", "PU"])
                    cls = _S[nm]
                    if nm == "PS":
                        h = cls(a=rng.randint(-2 ** 63, 2 ** 63 - 1), b=1.5, s="x" * rng.randint(0, 9), _buffer=env.buf)
                    elif nm == "PA":
                        h = cls([rng.randint(-9, 9) for _ in range(rng.randint(0, 5))], _buffer=env.buf)
                    elif nm == "PB":
                        h = cls(np.arange(6.0).reshape(2, 3) + rng.random(), _buffer=env.buf, _offset=rng.choice([None, "packed"]))
                    else:
                        h = cls(None, _buffer=env.buf) if rng.random() < 0.3 else cls(_S["PS"](a=3, b=2.0, s="q", _buffer=env.buf), _buffer=env.buf)
                    objs.append([nm, h, False])
                    if rng.random() < 0.3:
                        env.add_neighbour()
                    # check every object so far
                    base = base_of(env.buf)
                    raw = bufmon.raw_bytes(env.buf)
                    for nm2, h2, grown in objs:
                        a = K[f"addr_{nm2}"](obj=h2)
                        f8 = K[f"first8_{nm2}"](obj=h2)
                        w.count("object_address_calls", 2)
                        if grown:
                            w.count("addresses_after_growth")
                        off = int(h2._offset)
                        if int(a) - base != off:
                            viol(f"object-pointer-wrong|{nm2}|{'after-growth' if grown else 'fresh'}",
                                 f"addr_{nm2} returned base+{int(a) - base}, object lives at offset {off}")
                        want = int.from_bytes(raw[off:off + 8], "little", signed=True)
                        if int(f8) != want:
                            viol(f"object-bytes-wrong|{nm2}", f"first8 returned {f8}, bytes at the object's offset are {want}")
                w.case(["objects", cname, len(objs)], sample=dict(info, objects=[o[0] for o in objs]) if rng.random() < 0.005 else None)
            finally:
                env.close()
        elif kind == "pointers":
            tn = rng.choice(PTR_T)
            dt = DT[tn]
            n = rng.randint(4, 12)
            base = (np.arange(n * 2) * 3 + 7).astype(dt)
            forms = ["ndarray", "slice", "strided", "2d", "2d-slice", "2d-block", "2d-transposed", "2d-fortran",
                     "xobject", "xobject-in-struct", "xobject-empty"]
            form = rng.choice(forms)
            info["form"], info["type"] = form, tn
            if form == "ndarray":
                arr = base.copy()
                addr, first = arr.ctypes.data, arr[0]
            elif form == "slice":
                k = rng.randint(1, n - 1)
                arr = base[k:]
                addr, first = base.ctypes.data + k * dt.itemsize, base[k]
                w.count("slice_pointer_calls")
            elif form == "strided":
                arr = base[1::2]
                addr, first = base.ctypes.data + dt.itemsize, base[1]
                w.count("slice_pointer_calls")
            elif form == "2d":
                arr = base.reshape(2, n)
                addr, first = arr.ctypes.data, arr[0, 0]
            elif form == "2d-slice":
                m = base.reshape(2, n)
                arr = m[1:, 2:]
                addr, first = m.ctypes.data + (n + 2) * dt.itemsize, m[1, 2]
                w.count("slice_pointer_calls")
            elif form == "2d-block":  # a multi-row sub-block: not contiguous in any order
                m = base.reshape(n, 2)
                r0 = rng.randint(0, n - 3)
                arr = m[r0:, 1:]
                addr, first = m.ctypes.data + (2 * r0 + 1) * dt.itemsize, m[r0, 1]
                w.count("noncontiguous_2d_pointer_calls")
            elif form == "2d-transposed":
                m = base.reshape(2, n)
                arr = m.T
                addr, first = m.ctypes.data, m[0, 0]
                w.count("noncontiguous_2d_pointer_calls")
            elif form == "2d-fortran":
                arr = np.asfortranarray(base.reshape(2, n))
                addr, first = arr.ctypes.data, arr[0, 0]
                w.count("noncontiguous_2d_pointer_calls")
            elif form == "xobject-empty":
                # an xobject array without items: the kernel gets the address where its data would begin
                env = Env(rng, ctx=ctx)
                try:
                    A = rng.choice([SC[tn][:], SC[tn][:, 3], SC[tn][:, :]])
                    pad = env.buf.allocate(rng.choice([8, 24]))
                    arr = A(*([0] if A._shape != (None, None) else [0, rng.choice([0, 2])]), _buffer=env.buf)
                    if rng.random() < 0.4:
                        env.force_growth()
                    try:
                        # there is no first element: only that the call is an ordinary call is judged (an array of the
                        # right element type is not among the calls that are refused)
                        K[f"paddr_{tn}"](p=arr)
                        w.count("empty_xobject_array_pointer_calls")
                    except Exception as e:
                        viol(f"pointer-arg-{exc_kind(e)}|xobject-empty", f"{type(e).__name__}: {e}")
                finally:
                    env.close()
                w.case(["pointers", cname, tn, form], None)
                return
            else:
                env = Env(rng, ctx=ctx)
                try:
                    A = SC[tn][:]
                    if form == "xobject":
                        arr = A(base[:n], _buffer=env.buf)
                    else:
                        S = type(f"W{next(_uid)}", (xo.Struct,), {"k": xo.Int64, "v": A})
                        arr = S(k=1, v=base[:n], _buffer=env.buf).v
                    if rng.random() < 0.4:
                        env.force_growth()
                    addr = base_of(env.buf) + int(arr._get_offset(0))
                    first = base[0]
                    w.count("xobject_array_pointer_calls")
                    _ptr_calls(w, K, tn, dt, arr, addr, first, viol, form, rng)
                finally:
                    env.close()
                w.case(["pointers", cname, tn, form], None)
                return
            _ptr_calls(w, K, tn, dt, arr, addr, first, viol, form, rng)
            w.case(["pointers", cname, tn, form], sample=dict(info) if rng.random() < 0.005 else None)
        elif kind == "mix":
            env = Env(rng, ctx=ctx)
            try:
                s = _S["PS"](a=1, b=2.0, s="abc", _buffer=env.buf)
                arr = _S["PA"]([1, 2, 3], _buffer=env.buf)
                p = np.arange(5, dtype=np.int64)
                out = np.zeros(8, dtype=np.int64)
                a = rng.choice([-128, 127, 5])
                b = rng.choice([1e300, -0.0, 3.25])
                cc = rng.choice([2 ** 64 - 1, 0, 12345678901234567890])
                d = rng.choice([1.5, -3.0e38, 0.1])
                K["mix"](a=a, b=b, s=s, p=p, c=cc, d=d, arr=arr, out=out)
                w.count("mixed_signature_calls")
                base = base_of(env.buf)
                want = [a, int.from_bytes(np.float64(b).tobytes(), "little", signed=True), base + int(s._offset), p.ctypes.data,
                        int.from_bytes(np.uint64(cc).tobytes(), "little", signed=True),
                        int.from_bytes(np.float32(d).tobytes() + b"\0\0\0\0", "little", signed=True), base + int(arr._offset)]
                for i, (g, x) in enumerate(zip(out[:7].tolist(), want)):
                    if g != x:
                        viol(f"mixed-argument-{i}-wrong", f"argument {i}: kernel saw {g}, expected {x}")
                w.case(["mix", cname, a, b], None)
            finally:
                env.close()
        else:
            _refusals(w, rng, K, viol, cname)
    finally:
        flush_contracts(w, info)


def _ptr_calls(w, K, tn, dt, arr, addr, first, viol, form, rng):
    try:
        a = K[f"paddr_{tn}"](p=arr)
        f = K[f"first_{tn}"](p=arr)
    except Exception as e:
        viol(f"pointer-arg-{exc_kind(e)}|{form}", f"{type(e).__name__}: {e}")
        return
    w.count("pointer_arg_calls", 2)
    if int(a) != int(addr):
        viol(f"pointer-not-first-element|{form}", f"kernel saw {int(a)}, first element is at {int(addr)} (delta {int(a) - int(addr)})")
    if dt.type(f).tobytes() != dt.type(first).tobytes():
        viol(f"pointer-first-value-wrong|{form}", f"kernel read {f!r}, first element is {first!r}")
    # write through the pointer and see it from Python
    newv = dt.type(rng.randint(1, 100))
    K[f"store_{tn}"](p=arr, v=newv.item())
    w.count("pointer_arg_calls")
    got = arr[tuple([0] * arr.ndim)] if hasattr(arr, "ndim") else arr[0]
    if dt.type(got).tobytes() != newv.tobytes():
        viol(f"store-through-pointer-not-visible|{form}", f"stored {newv!r}, Python reads {got!r}")


def _refusals(w, rng, K, viol, cname):
    n0 = int(K["get_ncalls"]())
    good = np.arange(4, dtype=np.float64)
    cases = [
        ("positional", lambda: K["id_Int64"](5)),
        ("positional-pointer", lambda: K["first_Float64"](good)),
        ("missing", lambda: K["id_Int64"]()),
        ("missing-one-of-two", lambda: K["store_Float64"](p=good)),
        ("extra", lambda: K["id_Int64"](x=1, y=2)),
        ("misnamed", lambda: K["id_Int64"](y=1)),
        ("misnamed-pointer", lambda: K["first_Float64"](q=good)),
        ("wrong-dtype-array-f32-for-f64", lambda: K["first_Float64"](p=np.arange(4, dtype=np.float32))),
        ("wrong-dtype-array-i64-for-f64", lambda: K["first_Float64"](p=np.arange(4, dtype=np.int64))),
        ("wrong-dtype-array-f64-for-i32", lambda: K["first_Int32"](p=good)),
        ("wrong-dtype-array-u8-for-i8", lambda: K["paddr_Int8"](p=np.arange(4, dtype=np.uint8))),
        ("wrong-dtype-xobject-array", lambda: K["first_Float64"](p=xo.Int64[:]([1, 2, 3]))),
        ("scalar-for-pointer", lambda: K["first_Float64"](p=3.0)),
        # a misspelled name is a missing AND an extra argument at once (the count is right)
        ("misnamed-float-scalar", lambda: K["id_Float64"](y=1.0)),
        ("misnamed-float32-scalar", lambda: K["id_Float32"](xx=1.0)),
        ("misnamed-one-of-two", lambda: K["store_Float64"](p=good, w=1.0)),
        # element types outside the ten numeric ones must not be taken for an integer of the same width
        ("wrong-dtype-array-complex64-for-i64", lambda: K["paddr_Int64"](p=np.zeros(4, dtype=np.complex64))),
        ("wrong-dtype-array-bool-for-i8", lambda: K["paddr_Int8"](p=np.zeros(4, dtype=bool))),
        ("wrong-dtype-array-datetime64-for-i64", lambda: K["paddr_Int64"](p=np.zeros(4, dtype="datetime64[s]"))),
        ("wrong-dtype-array-timedelta64-for-i64", lambda: K["paddr_Int64"](p=np.zeros(4, dtype="timedelta64[s]"))),
        ("wrong-dtype-array-U1-for-i32", lambda: K["paddr_Int32"](p=np.zeros(4, dtype="U1"))),
        ("wrong-dtype-array-float16-for-i16", lambda: K["paddr_Int16"](p=np.zeros(4, dtype=np.float16))),
        ("wrong-dtype-array-record-for-i64", lambda: K["paddr_Int64"](p=np.zeros(4, dtype=[("a", "i4"), ("b", "i4")]))),
        ("wrong-dtype-array-complex128-for-f64", lambda: K["first_Float64"](p=np.zeros(4, dtype=np.complex128))),
    ]
    rng.shuffle(cases)
    for name, fn in cases[:10]:
        try:
            fn()
            raised = False
        except Exception:
            raised = True
        w.count("refusals_checked")
        n1 = int(K["get_ncalls"]())
        if not raised:
            viol(f"not-refused|{name}", f"call with {name} argument(s) was accepted")
        if n1 != n0:
            viol(f"c-function-ran-despite-bad-arguments|{name}", f"call counter {n0} -> {n1}")
            n0 = n1
    w.case(["refusals", cname, [c[0] for c in cases[:10]]], None)
