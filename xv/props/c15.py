"""C15 — OpenCL and CUDA accessor source computes the same addresses as CPU."""
import os
import re
import shutil
import subprocess
import tempfile

import numpy as np

import xobjects as xo
from xv import bufmon, fakegpu
from xv.typegen import kinds_in, shape_sig, DT
from xv.model import exc_kind
from xv.charness import (plan_calls, script_for, expected_text, DRIVER_PRELUDE, CFMT, SAN_FLAGS, sanitizer_reports)
from xv.props.common import new_case, build_root, flush_contracts
from xv.props.c07 import leaf_value

xo.general._print.suppress = True
fakegpu.install()

ID = "C15"
LEVEL = "exploration"
N_QUICK, N_THOROUGH = 400, 12000
T_QUICK, T_THOROUGH = 85, 1500
TARGETS = ["cpu_serial", "cpu_openmp", "opencl", "cuda"]
FLOORS = {"unions_with_switch_methods": 8, "types": 120, "token_comparisons": 360, "cl12_accepted": 120, "cl20_accepted": 120, "host_c_accepts_opencl": 120,
          "host_cxx_accepts_cuda": 120, "global_qualifier_counts_checked": 120, "outputs_compared_lines": 8000,
          "setter_diffs_compared": 1500}
FLOORS.update({"run:" + t: 120 for t in TARGETS})
RULE = ("random type AST rooted at struct/array/unionref x value; the accessor source is obtained through the real "
        "ContextCpu (serial, OpenMP), ContextPyopencl and ContextCupy build paths (GPU modules replaced by recording "
        "stand-ins); oracle: (i) one accessor script (get/getp/len/typeid/member/set+byte diff for all sampled index "
        "tuples) executed on the same object image under the four specialisations, each built with ASan+UBSan, prints "
        "identical lines, equal to what the Python view reports; (ii) accessor code is token-identical across targets "
        "after deleting exactly the target qualifiers; (iii) the OpenCL form is accepted by clang's OpenCL C front end "
        "under CL1.2 (where a pointer derived from the __global object that loses the qualifier is a hard error) and "
        "CL2.0, and carries one __global per /*gpuglmem*/ placeholder; (iv) OpenCL and CUDA forms are accepted by the "
        "host C / C++ compiler with the target keywords defined away. distinct = name-erased AST.")
ASSUMPTIONS = ["no GPU runtime exists here: address spaces are judged by clang's OpenCL front end at compile time, execution is on the host",
               "vendor-compiler acceptance is out of reach"]
QUALS = {"static", "inline", "__global", "__device__", "restrict", "__kernel", "__global__"}
_tmp = None
_ctx = {}


def setup(w):
    global _tmp
    _tmp = tempfile.mkdtemp(prefix="xvc15_")
    _ctx["cpu_serial"] = xo.ContextCpu()
    _ctx["cpu_openmp"] = xo.ContextCpu(omp_num_threads=2)
    _ctx["opencl"] = xo.ContextPyopencl(patch_pyopencl_array=False, minimum_alignment=1)
    _ctx["cuda"] = xo.ContextCupy()


def teardown(w):
    shutil.rmtree(_tmp, ignore_errors=True)
    fakegpu.cleanup()


def sources_for(cls, rng=None, w=None):
    """Specialised accessor sources of the four targets.  In half of the cases the kernel descriptions are generated
    ONCE and reused for all targets, with the calls a real CPU compilation makes (declarations generated with an empty
    configuration) in between -- the GPU sources must not depend on what was generated for another target before."""
    out = {}
    reuse = rng is not None and rng.random() < 0.5
    kd = cls._gen_kernels() if reuse else None
    if reuse and w is not None:
        w.count("kernel_descriptions_reused_across_targets")
    order = ["cpu", "gpu"] if (rng is None or rng.random() < 0.7) else ["gpu", "cpu"]
    for part in order:
        if part == "cpu":
            for t in ("cpu_serial", "cpu_openmp"):
                ks = _ctx[t].build_kernels(kernel_descriptions=kd if reuse else cls._gen_kernels(), sources=[], compile=False)
                k = next(iter(ks.values()))
                out[t] = k.specialized_source
                out["raw"] = k.source
                if reuse:
                    from xobjects.context import sort_classes
                    empty_conf = rng.random() < 0.6
                    for c_ in sort_classes([cls]):
                        if empty_conf:
                            c_._gen_c_decl({})  # what ContextCpu.build_kernels(compile=True) does for the cffi cdefs
                        else:
                            c_._gen_c_decl()    # what a user asking for the declarations does (default configuration)
        else:
            _gpu_sources(cls, kd if reuse else None, out)
    return out


def _gpu_sources(cls, kd, out):
    for t in ("opencl", "cuda"):
        n0 = len(fakegpu.recorded)
        _ctx[t].build_kernels(sources=[], kernel_descriptions=kd if kd is not None else cls._gen_kernels())
        rec = fakegpu.recorded[n0:]
        assert len(rec) == 1 and rec[0][0] == t
        out[t] = rec[0][1]
    return out


def api_part(src, target):
    i = src.find("#ifndef XOBJ_TYPEDEF_")
    s = src[i:]
    if target == "cuda":
        s = s.rstrip()
        if s.endswith("}"):
            s = s[:-1]
    return s


def tokens(s):
    s = re.sub(r"//[^\n]*", " ", s)
    s = re.sub(r"/\*.*?\*/", " ", s, flags=re.S)
    return [t for t in re.findall(r"\w+|[^\s\w]", s) if t not in QUALS]


def run(cmd, timeout=120):
    p = subprocess.run(cmd, capture_output=True, text=True, timeout=timeout)
    return p.returncode, p.stderr[-2500:]


def proto_lines(calls, root_cname):
    seen, out = set(), []
    for c in calls:
        if c.name in seen:
            continue
        seen.add(c.name)
        idx = "".join(", long" for _ in c.idx)
        if c.kind == "get":
            out.append(f"{CFMT[c.leaf_t['t']]} {c.name}(void*{idx});")
        elif c.kind in ("getp", "member"):
            out.append(f"void* {c.name}(void*{idx});")
        elif c.kind in ("len", "typeid"):
            out.append(f"long {c.name}(void*{idx});")
        elif c.kind == "set":
            out.append(f"void {c.name}(void*{idx}, {CFMT[c.leaf_t['t']]});")
    return out


def driver_source(calls, lines, offset, inline_source=None):
    body = ["#include <stdint.h>"] if inline_source is None else []
    if inline_source is not None:
        body.append(inline_source)
    else:
        body += proto_lines(calls, None)
    body.append(DRIVER_PRELUDE)
    body += ["int main(int argc,char**argv){",
             "  FILE*f=fopen(argv[1],\"rb\"); if(!f) return 3; fseek(f,0,SEEK_END); N=ftell(f); fseek(f,0,SEEK_SET);",
             "  base=(char*)malloc(N); pristine=(char*)malloc(N); if(N && fread(base,1,N,f)!=(size_t)N) return 3; fclose(f);",
             "  memcpy(pristine,base,N);",
             f"  void* obj=(void*)(base+{int(offset)});"]
    body += ["  " + l for l in lines]
    body += ["  printf(\"END\\n\"); free(base); free(pristine); return 0; }"]
    return "\n".join(body)


def _add_union_methods(w, c):
    """Union references of the type get two switch methods (one returning a scalar, one taking and returning a pointer
    into object memory); every member class gets the functions the switch dispatches to."""
    n = 0
    for name, U in c.cache.items():
        if not (isinstance(U, type) and issubclass(U, xo.UnionRef)):
            continue
        for mi, M in enumerate(U._reftypes):
            if getattr(M, "_xv_methods", False):
                continue
            mn = M.__name__
            src = (f"/*gpufun*/ double {mn}_xvm({mn} obj, int64_t k){{ return (double)k + {mi}; }}\n"
                   f"/*gpufun*/ /*gpuglmem*/ double* {mn}_xvp({mn} obj, /*gpuglmem*/ double* p){{ return p; }}\n")
            if "_extra_c_sources" in M.__dict__ and isinstance(M._extra_c_sources, list):
                M._extra_c_sources.append(src)
            else:
                M._extra_c_sources = list(getattr(M, "_extra_c_sources", [])) + [src]
            M._xv_methods = True
        U._methods = [xo.Method(c_name="xvm", args=[xo.Arg(xo.Int64, name="k")], ret=xo.Arg(xo.Float64)),
                      xo.Method(c_name="xvp", args=[xo.Arg(xo.Float64, pointer=True, name="p")],
                                ret=xo.Arg(xo.Float64, pointer=True))]
        n += 1
    if n:
        w.count("unions_with_switch_methods", n)


def run_case(w, rng):
    c = new_case(w, rng, roots=("st", "st", "ar", "ar", "ur"), depth=rng.choice([1, 2, 2, 3]),
                 env_kw=dict(al=8, neighbours=0, kind="numpy"), modes=(None, "aligned"), vg_kw=dict(max_dyn=3, nulls=0.2))
    t, env = c.t, c.env
    seen = set()

    def viol(mech, msg):
        if mech not in seen:
            seen.add(mech)
            w.violation(mech, msg, c.info)

    d = tempfile.mkdtemp(dir=_tmp)
    try:
        env.buf.allocate(rng.choice([8, 24]))
        env.repoison()
        try:
            h = build_root(c, rng)
        except Exception as e:
            w.violation(f"construct-{exc_kind(e)}", f"{type(e).__name__}: {e}", c.info)
            return
        if rng.random() < 0.6:
            _add_union_methods(w, c)
        try:
            S = sources_for(c.cls, rng, w)
        except Exception as e:
            viol(f"source-generation-{type(e).__name__}", f"{str(e)[-800:]}")
            return
        w.count("types")
        # ---- (ii) token identity after deleting the target qualifiers
        ref = tokens(api_part(S["cpu_serial"], "cpu_serial"))
        for tg in ("cpu_openmp", "opencl", "cuda"):
            tk = tokens(api_part(S[tg], tg))
            w.count("token_comparisons")
            if tk != ref:
                i = next((i for i, (a, b) in enumerate(zip(tk, ref)) if a != b), min(len(tk), len(ref)))
                viol(f"accessor-code-differs-beyond-qualifiers|{tg}", f"token {i}: {tk[max(0, i - 6):i + 6]} vs cpu {ref[max(0, i - 6):i + 6]}")
        # ---- (iii) __global everywhere the generator asked for it
        n_place = api_part(S["raw"], "cpu_serial").count("/*gpuglmem*/")
        n_glob = len(re.findall(r"\b__global\b", api_part(S["opencl"], "opencl")))
        w.count("global_qualifier_counts_checked")
        if n_place != n_glob:
            viol("opencl-global-qualifier-count", f"{n_place} /*gpuglmem*/ placeholders, {n_glob} __global qualifiers")
        if re.search(r"\b__global\b", api_part(S["cuda"], "cuda")) or "__global" in api_part(S["cpu_serial"], "cpu_serial"):
            viol("global-qualifier-leaked-into-non-opencl-target", "")
        clsrc = os.path.join(d, "a.cl")
        with open(clsrc, "w") as f:
            f.write(S["opencl"])
        cusrc = os.path.join(d, "a.cu.cpp")
        with open(cusrc, "w") as f:
            f.write(S["cuda"])
        rc, err = run([fakegpu.CLANG] + fakegpu.CL_FLAGS + ["-cl-std=CL1.2", "-fsyntax-only", "-Werror=incompatible-pointer-types", clsrc])
        if rc != 0:
            viol("opencl-CL1.2-front-end-rejects", err[-900:])
        else:
            w.count("cl12_accepted")
        # ---- (iv) keywords defined away: plain host compilers
        rc, err = run(["gcc", "-x", "c", "-std=c99", "-D__global=", "-D__kernel=", "-fsyntax-only", "-w", clsrc])
        if rc != 0:
            viol("host-c-rejects-opencl-form", err[-900:])
        else:
            w.count("host_c_accepts_opencl")
        rc, err = run(["g++", "-x", "c++", "-D__global__=", "-D__device__=", "-fsyntax-only", "-w", cusrc])
        if rc != 0:
            viol("host-cxx-rejects-cuda-form", err[-900:])
        else:
            w.count("host_cxx_accepts_cuda")
        # ---- (i) one script, four builds, one image
        calls = plan_calls(t, h, c.mv, rng=rng)[:300]
        vals = {id(x): leaf_value(rng, x.leaf_t["t"], w) for x in calls if x.kind == "set"}
        lines, expect = script_for(calls, vals)
        hwm = max([hi for lo, hi in env.fol.sh.live_intervals()] + [0])
        image = bufmon.raw_bytes(env.buf)[:hwm]
        img = os.path.join(d, "img.bin")
        with open(img, "wb") as f:
            f.write(image)
        want = expected_text(expect, image)
        off = int(h._offset)
        outs = {}
        for tg in TARGETS:
            exe = os.path.join(d, f"{tg}.exe")
            if tg.startswith("cpu"):
                src = os.path.join(d, f"{tg}.c")
                with open(src, "w") as f:
                    f.write(driver_source(calls, lines, off, inline_source=S[tg]))
                comp = ["gcc", "-fopenmp"] if tg == "cpu_openmp" else [fakegpu.CLANG]
                rc, err = run(comp + ["-std=c99", "-O1", "-g", "-w"] + SAN_FLAGS + [src, "-o", exe])
            else:
                drv = os.path.join(d, f"{tg}_drv.c")
                with open(drv, "w") as f:
                    f.write(driver_source(calls, lines, off))
                obj = os.path.join(d, f"{tg}.o")
                if tg == "opencl":
                    rc, err = run([fakegpu.CLANG] + fakegpu.CL_FLAGS + ["-cl-std=CL2.0", "-g", "-w"] + SAN_FLAGS + ["-c", clsrc, "-o", obj])
                    if rc == 0:
                        w.count("cl20_accepted")
                    link = fakegpu.CLANG
                else:
                    rc, err = run([fakegpu.CLANGXX, "-x", "c++", "-O1", "-g", "-w", "-D__global__=", "-D__device__=", "-fno-sanitize=function,vptr"]
                                  + SAN_FLAGS + ["-c", cusrc, "-o", obj])
                    link = fakegpu.CLANGXX
                if rc == 0:
                    dobj = os.path.join(d, f"{tg}_drv.o")
                    rc, err = run([fakegpu.CLANG, "-std=c99", "-O1", "-g", "-w"] + SAN_FLAGS + ["-c", drv, "-o", dobj])
                    if rc == 0:
                        rc, err = run([link] + SAN_FLAGS + [dobj, obj, "-o", exe])
            if rc != 0:
                viol(f"build-failed|{tg}", err[-900:])
                continue
            env_ = dict(os.environ, ASAN_OPTIONS="halt_on_error=1:detect_leaks=0", UBSAN_OPTIONS="halt_on_error=1", OMP_NUM_THREADS="2")
            r = subprocess.run([exe, img], capture_output=True, text=True, timeout=60, env=env_)
            w.count("run:" + tg)
            if r.returncode != 0 or sanitizer_reports(r.stderr):
                viol(f"sanitizer-or-crash|{tg}", f"rc={r.returncode} {r.stderr[-900:]}")
                continue
            outs[tg] = r.stdout.splitlines()
        for tg, out in outs.items():
            w.count("outputs_compared_lines", len(out))
            if out != want:
                i = next((i for i, (a, b) in enumerate(zip(out, want)) if a != b), min(len(out), len(want)))
                cl = calls[i] if i < len(calls) else None
                viol(f"target-output-differs|{tg}|{cl.kind if cl else 'end'}",
                     f"{cl} at {cl.label if cl else ''}: {tg} printed {out[i] if i < len(out) else None!r}, expected {want[i] if i < len(want) else None!r}")
        w.count("setter_diffs_compared", sum(1 for e in expect if isinstance(e, tuple)) * len(outs))
        for kk in kinds_in(t):
            w.seen(kk)
        w.case(shape_sig(t), sample=dict(c.info, calls=[repr(x) for x in calls[:10]]) if rng.random() < 0.03 else None,
               nontrivial=len(calls) >= 4)
    finally:
        env.close()
        shutil.rmtree(d, ignore_errors=True)
        flush_contracts(w, c.info)
