"""C01 — values written at construction are read back exactly."""
import numpy as np

import xobjects as xo
from xv import bufmon
from xv.typegen import (TypeGen, ValGen, build, plain, as_ndarray, AVal, kinds_in, shape_sig, tuple_free,
                        is_static, list_ok, to_list, model_json, walk)
from xv.model import Env, compare, construct, exc_kind, ar_sig
from xv.decoder import plan_size

bufmon.install()
bufmon.install_contracts()

ID = "C01"
LEVEL = "exploration"
N_QUICK, N_THOROUGH = 200000, 4000000
T_QUICK, T_THOROUGH = 70, 1500
FLOORS = {"objects_compared": 4000, "reads": 100000, "form:plain": 500, "form:kwargs": 100, "form:nd_c": 300,
          "form:nd_f": 300, "form:nd_strided": 200, "form:nd_obj": 100, "form:xobj_same": 200,
          "form:xobj_other": 200, "form:dims": 100, "form:capacity": 100, "form:nested_xobj": 200,
          "seen:st": 1000, "seen:str": 500, "seen:ref": 300, "seen:ur": 200, "seen:ar1sS": 100, "seen:ar2doS": 50,
          "seen:ar2dD": 20, "seen:ar3soS": 20, "reused_or_poisoned_bytes": 100000}
RULE = ("random type AST (depth<=3 quick/4 thorough, <=4 fields, 1-3 dims of extent 0-3, any axis order, refs and "
        "union refs) x value with pairwise-distinct leaves incl. extremes/non-finite/multi-byte x input form "
        "{plain, kwargs, ndarray C/F/strided/object, another xobject same/other buffer, nested xobjects, dims, "
        "string capacity} x placement {both buffer kinds, capacity 0..4096, alignment 1..64, neighbours, freed "
        "holes, poisoned dead bytes, default/aligned/packed/explicit offset}; oracle: model vs every accessor. "
        "distinct = (name-erased AST, input form, placement class); non-trivial = type has a compound node.")
ASSUMPTIONS = ["no embedded NUL in strings", "tuples are never placed inside numpy object arrays",
               "nested lists are not used where a zero-length leading dimension must be expressed",
               "scalar arrays created from dimensions have unspecified contents (shape only compared)"]
FORMS = ["plain", "plain", "plain", "kwargs", "nd_c", "nd_f", "nd_strided", "nd_swapped", "nd_obj", "xobj_same", "xobj_other", "xobj_other_class",
         "nested_xobj", "dims", "capacity"]

_ctx = []


def ctxs():
    if not _ctx:
        _ctx.extend([xo.ContextCpu(), xo.ContextCpu()])
    return _ctx


def to_input(t, mv, rng, form, cache, env, top=True):
    """Model value -> constructor argument in the requested input form."""
    k = t["k"]
    if k == "sc":
        return mv if rng.random() < 0.3 else mv.item()
    if k == "str":
        return mv
    if k == "st":
        d = {fn: to_input(ft, mv[fn], rng, form, cache, env, False) for fn, ft in t["f"]}
        if form == "nested_xobj" and not top and rng.random() < 0.6:
            return build(t, cache)(d, _buffer=rng.choice([env.buf, None]))
        return d
    if k == "ar":
        it = t["it"]
        if form in ("nd_c", "nd_f", "nd_strided", "nd_swapped") and it["k"] == "sc":
            a = as_ndarray(t, mv, layout={"nd_c": "c", "nd_f": "f", "nd_strided": "strided", "nd_swapped": rng.choice(["c", "f"])}[form])
            if form == "nd_swapped":
                # same values, non-native byte order (data read from a big-endian file, say)
                a = a.astype(a.dtype.newbyteorder())
            return a
        if (form == "nd_obj" and it["k"] != "sc" and tuple_free(it)) or not list_ok(mv.shape):
            if it["k"] == "sc":
                return as_ndarray(t, mv)
            return as_ndarray(t, mv, inner=lambda v: to_input(it, v, rng, form, cache, env, False))
        lst = to_list(mv, lambda v: to_input(it, v, rng, form, cache, env, False))
        if form == "nested_xobj" and not top and rng.random() < 0.6:
            return build(t, cache)(lst, _buffer=rng.choice([env.buf, None]))
        return lst
    if k == "ref":
        return None if mv is None else to_input(t["to"], mv, rng, form, cache, env, False)
    if k == "ur":
        if mv is None:
            return None
        m = t["m"][mv[0]]
        inner = to_input(m, mv[1], rng, form, cache, env, False)
        if hasattr(inner, "_buffer"):
            return inner
        return (m["n"], inner)


def other_class_source(t, mv, rng, cache, env):
    """An xobject array of another class (other axis order, some extents static instead of dynamic or the reverse) holding mv."""
    nd = len(t["dims"])
    order2 = list(range(nd))
    rng.shuffle(order2)
    from xv.typegen import _uid
    t2 = dict(t, n=t["n"] + f"alt{next(_uid)}", anon=False, ord=order2, dims=[rng.choice([s_, d, None]) for s_, d in zip(mv.shape, t["dims"])])
    cls2 = build(t2, cache)
    arg = cls2(plain(t2, mv, rng, np_scalars=True), _buffer=rng.choice([env.buf, None]))
    env.repoison()
    if rng.random() < 0.4:
        # the same array seen through a view rebuilt from (buffer, offset): its shape was read back from the buffer
        arg = cls2._from_buffer(arg._buffer, arg._offset)
    return arg


def run_case(w, rng):
    depth = rng.choice([1, 2, 2, 3, 3]) if w.tier == "quick" else rng.choice([1, 2, 3, 3, 4])
    tg = TypeGen(rng, max_depth=depth)
    form = rng.choice(FORMS)
    if form == "capacity":
        t = rng.choice([{"k": "str"}, {"k": "ar", "n": tg.name("A"), "it": {"k": "str"}, "dims": [None], "ord": [0]},
                        {"k": "st", "n": tg.name("S"), "f": [["f0", tg.scalar()], ["f1", {"k": "str"}], ["f2", tg.scalar()]]}])
    elif form == "dims":
        t = tg.g_ar(depth)
        while not is_static(t["it"]):
            t = tg.g_ar(depth)
    elif form.startswith("nd_") or form == "xobj_other_class":
        t = tg.root(allow=("ar", "ar", "st") if form != "xobj_other_class" else ("ar",))
    else:
        t = tg.root()
    cache = {}
    if rng.random() < 0.1:
        from xv.props.common import use_decoy
        use_decoy(t, rng)
        w.count("same_named_decoy_classes_used_before")
    cls = build(t, cache)
    vg = ValGen(rng)
    mv = vg.value(t)
    env = Env(rng, ctx=ctxs()[0])
    try:
        _one(w, rng, t, cls, cache, mv, form, env)
    finally:
        env.close()
        for name, det in bufmon.take_contract_failures():
            w.violation("contract:" + name, str(det), dict(type=t, form=form))


def _one(w, rng, t, cls, cache, mv, form, env):
    mode = rng.choice([None, None, "aligned", "packed", "explicit"])
    case = dict(type=t, value=model_json(t, mv), form=form, placement=env.placement(), mode=mode)
    shape_only = False
    try:
        if form == "capacity":
            arg, mv = _capacity_arg(t, mv, rng)
            case["arg"] = repr(arg)[:200]
        elif form == "dims":
            arg = tuple(s for s, d in zip(mv.shape, t["dims"]) if d is None)
            shape_only = t["it"]["k"] == "sc"
            if not shape_only:
                mv = AVal(mv.shape, {i: _default_value(t["it"]) for i in mv.items})
        elif form in ("xobj_same", "xobj_other") and t["k"] == "ur":
            if mv is None:
                arg = None
            else:
                m = t["m"][mv[0]]
                mb = env.buf if form == "xobj_same" else None
                arg = build(m, cache)(plain(m, mv[1], rng), _buffer=mb)
                env.repoison()
        elif form == "xobj_other_class" and t["k"] == "ar":
            # an xobject array of ANOTHER class with the same item type and extents (other axis order, static
            # instead of dynamic extents): the value is taken over index by index
            arg = other_class_source(t, mv, rng, cache, env)
        elif form == "xobj_other_class":
            arg = to_input(t, mv, rng, "plain", cache, env)
            env.repoison()
        elif form in ("xobj_same", "xobj_other"):
            src_buf = env.buf if form == "xobj_same" else rng.choice([None, "ctx2"])
            a = plain(t, mv, rng, np_scalars=True)
            if src_buf == "ctx2":
                src = cls(a, _context=ctxs()[1])
            elif src_buf is None:
                src = cls(a)
            else:
                src = cls(a, _buffer=src_buf)
            env.repoison()
            arg = src
        else:
            arg = to_input(t, mv, rng, form, cache, env)
            env.repoison()
        need = None
        if mode == "explicit":
            if form == "dims" or form == "capacity":
                mode = "aligned"
            else:
                need = plan_size(t, mv)
        w.count("reused_or_poisoned_bytes", sum(e - s for s, e in env.fol.sh.dead_intervals()))
        if t["k"] == "ur":  # a top-level UnionRef takes (typename, data) as two arguments, or an object, or nothing
            kw = dict(_buffer=env.buf)
            if mode == "explicit":
                kw["_offset"] = env.buf.allocate(16)
                env.repoison()
            elif mode is not None:
                kw["_offset"] = mode
            if arg is None:
                h = cls(**kw) if rng.random() < 0.5 else cls(None, **kw)
            elif isinstance(arg, tuple):
                h = cls(*arg, **kw)
            else:
                h = cls(arg, **kw)
        elif form == "dims":
            h = cls(*arg, _buffer=env.buf, **({} if mode is None else {"_offset": mode}))
        else:
            h, _ = construct(env, cls, arg, mode, need, kwargs_form=(form == "kwargs"))
    except Exception as e:
        w.count("construct_raised")
        sigs = sorted(s for s in kinds_in(t) if s.startswith("ar"))
        w.violation(f"construct-{exc_kind(e)}|{form}", f"{type(e).__name__}: {e}; array kinds {sigs}", case)
        w.case([shape_sig(t), form], None)
        return
    w.count("form:" + form)
    for kk in kinds_in(t):
        w.seen(kk)
    if shape_only:
        c = compare(t, AVal(mv.shape, {}), h, full=False)
    else:
        c = compare(t, mv, h)
    w.count("objects_compared")
    w.count("reads", c.reads)
    seen = set()
    for path, kind, detail, sig in c.errs:
        mech = f"{kind}|{sig}|{form}"
        if mech in seen:
            continue
        seen.add(mech)
        w.violation(mech, f"{path}: {detail}", case)
    nontrivial = any(n["k"] in ("st", "ar", "ref", "ur") for n in walk(t))
    w.case([shape_sig(t), form, env.kind, env.al, mode, env.cap > 0, len(env.neigh) > 0],
           sample=case if nontrivial and rng.random() < 0.01 else None, nontrivial=nontrivial)


def _default_value(t):
    k = t["k"]
    if k == "sc":
        return np.dtype(t["t"].lower()).type(0)
    if k == "ref" or k == "ur":
        return None
    if k == "st":
        return {fn: _default_value(ft) for fn, ft in t["f"]}
    if k == "ar":
        return AVal(t["dims"], {i: _default_value(t["it"]) for i in np.ndindex(*t["dims"])})
    raise ValueError(k)


def _capacity_arg(t, mv, rng):
    cap = rng.choice([1, 2, 7, 8, 9, 10, 16, 23, 40])
    if t["k"] == "str":
        return cap, ""
    if t["k"] == "ar":
        items = {}
        arg = []
        for (i,), v in sorted(mv.items.items()):
            if rng.random() < 0.5:
                arg.append(rng.choice([1, 8, 10, 13, 16]))
                items[(i,)] = ""
            else:
                arg.append(v)
                items[(i,)] = v
        return arg, AVal(mv.shape, items)
    d = plain(t, mv)
    d["f1"] = cap
    mv = dict(mv)
    mv["f1"] = ""
    return d, mv
