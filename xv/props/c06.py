"""C06 — a view rebuilt from buffer and offset equals the constructed handle."""
import numpy as np

from xv.typegen import kinds_in, shape_sig, is_static, plain
from xv.model import compare, exc_kind, nodes, get_path, set_path, read_root, ar_sig
from xv.props.common import new_case, build_root, flush_contracts

ID = "C06"
LEVEL = "exploration"
N_QUICK, N_THOROUGH = 100000, 2000000
T_QUICK, T_THOROUGH = 70, 1500
FLOORS = {"built_at_the_place_of_the_predecessor": 1500, "objects": 4000, "nested_views": 10000, "struct_attr_checks": 3000, "array_attr_checks": 5000,
          "write_through_checks": 5000, "growths": 500, "rereads_after_growth": 1000,
          "nplike_write_through_checks": 2000, "built_from_array_of_other_class": 800, "seen:ar2doD": 20, "seen:ar2dD": 50, "seen:ar3soS": 20, "seen:ref": 300}
RULE = ("random type AST x value x placement (as C01); for the root and EVERY nested compound (fields, items, "
        "reference targets) a view T._from_buffer(buffer, offset) is compared with the node reached through the "
        "constructor handle: full model comparison of both, equality of _offset/_shape/_strides/_size/len, "
        "and writes of distinct values through one read back through the other (both directions). distinct = "
        "(name-erased AST, placement class); non-trivial = has a compound node.")
ASSUMPTIONS = ["reads through a null reference are not attempted"]


def ints(x):
    return tuple(int(v) for v in x)


def attr_diff(w, t, a, b):
    """Structural attributes of two handles of the same object."""
    out = []
    if int(a._offset) != int(b._offset):
        out.append(f"_offset {a._offset} vs {b._offset}")
    if t["k"] == "ar":
        w.count("array_attr_checks")
        for at in ("_shape", "_strides"):
            try:
                x, y = ints(getattr(a, at)), ints(getattr(b, at))
            except Exception as e:
                out.append(f"{at}: {type(e).__name__}: {e}")
                continue
            if x != y and not (at == "_strides" and 0 in ints(a._shape)):
                out.append(f"{at} {x} vs {y}")
        if len(a) != len(b):
            out.append(f"len {len(a)} vs {len(b)}")
    else:
        w.count("struct_attr_checks")
    sa, sb = a._get_size(), b._get_size()
    if int(sa) != int(sb):
        out.append(f"_get_size {sa} vs {sb}")
    if hasattr(a, "_size") and hasattr(b, "_size") and a._size is not None and b._size is not None and int(a._size) != int(b._size):
        out.append(f"_size {a._size} vs {b._size}")
    return out


def run_case(w, rng):
    c = new_case(w, rng, roots=("st", "ar"))
    t, env = c.t, c.env
    try:
        try:
            if t["k"] == "ar" and 0 not in c.mv.shape and rng.random() < 0.2:
                # built from an xobject array of another class (other axis order / static extents)
                from xv.props.c01 import other_class_source
                h = c.cls(other_class_source(t, c.mv, rng, c.cache, env), _buffer=env.buf)
                w.count("built_from_array_of_other_class")
            else:
                if c.mode in (None, "aligned", "packed") and rng.random() < 0.2:
                    # the place may have held another object of the same class before: a predecessor with another value
                    # (other dynamic sizes) is built, read through a view and given back to the allocator, so that
                    # first fit can hand the same place out again; nothing remembered about the former occupant may
                    # show in the views of the new one
                    try:
                        pv = c.vg.value(t)
                        pred = c.cls(plain(t, pv, rng), _buffer=env.buf)
                        compare(t, pv, c.cls._from_buffer(env.buf, pred._offset))
                        poff, psize = int(pred._offset), int(pred._get_size())
                        env.buf.free(poff, psize)
                        env.repoison()
                        c.info["predecessor_at"] = poff
                    except Exception:
                        poff = None
                h = build_root(c, rng)
                if c.info.get("predecessor_at") is not None:
                    w.count("built_after_a_predecessor_of_the_same_class")
                    if int(h._offset) == c.info["predecessor_at"]:
                        w.count("built_at_the_place_of_the_predecessor")
        except Exception as e:
            w.violation(f"construct-{exc_kind(e)}", f"{type(e).__name__}: {e}", c.info)
            return
        try:
            v = c.cls._from_buffer(env.buf, h._offset)
        except Exception as e:
            w.violation(f"view-{exc_kind(e)}", f"{type(e).__name__}: {e}", c.info)
            return
        w.count("objects")
        for kk in kinds_in(t):
            w.seen(kk)
        seen = set()

        def viol(mech, msg):
            if mech not in seen:
                seen.add(mech)
                w.violation(mech, msg, c.info)

        # 1. both against the model
        for name, obj in (("handle", h), ("view", v)):
            cm = compare(t, c.mv, obj)
            for path, kind, detail, sig in cm.errs:
                viol(f"{name}:{kind}|{sig}", f"{path}: {detail}")
        # 1b. the storage is replaced (growth) after both have been read once: both must keep reading the object
        if rng.random() < 0.3 and not seen:
            w.count("growths", env.force_growth())
            for name, obj in (("handle", h), ("view", v)):
                cm = compare(t, c.mv, obj)
                w.count("rereads_after_growth")
                for path, kind, detail, sig in cm.errs:
                    viol(f"{name}-after-growth:{kind}|{sig}", f"{path}: {detail}")
        # 2. every nested compound: node via handle, node via view, fresh view at that offset
        for path, label, nt, nv in nodes(t, c.mv):
            if nt["k"] not in ("st", "ar") or nv is None:
                continue
            try:
                a, b = get_path(h, path), get_path(v, path)
                if a is None or b is None:
                    continue
                f = type(a)._from_buffer(env.buf, a._offset)
            except Exception as e:
                viol(f"nested-{exc_kind(e)}|{ar_sig(nt) if nt['k'] == 'ar' else 'st'}", f"{label}: {type(e).__name__}: {e}")
                continue
            w.count("nested_views")
            sig = ar_sig(nt) if nt["k"] == "ar" else "st"
            for x, y, nm in ((a, b, "handle-vs-view"), (a, f, "node-vs-fresh-view")):
                try:
                    for d in attr_diff(w, nt, x, y):
                        viol(f"attr-differs|{sig}|{d.split()[0]}", f"{label} {nm}: {d}")
                except Exception as e:
                    viol(f"attr-{exc_kind(e)}|{sig}", f"{label}: {type(e).__name__}: {e}")
            if path and rng.random() < 0.3:
                cm = compare(nt, nv, f, root=False)
                for pth, kind, detail, sg in cm.errs:
                    viol(f"freshview:{kind}|{sg}", f"{label}{pth[4:]}: {detail}")
        # 3. write through one, read through the other
        leaves = [(p, l, nt, nv) for p, l, nt, nv in nodes(t, c.mv) if nt["k"] in ("sc", "str") and p]
        rng.shuffle(leaves)
        for p, l, nt, nv in leaves[:6]:
            newv = c.vg.same_shape(nt, nv)
            src, dst = (h, v) if rng.random() < 0.5 else (v, h)
            try:
                set_path(src, p, newv if nt["k"] == "str" else (newv.item() if rng.random() < 0.5 else newv))
                got = get_path(dst, p)
            except Exception as e:
                viol(f"write-through-{exc_kind(e)}", f"{l}: {type(e).__name__}: {e}")
                continue
            w.count("write_through_checks")
            ok = (got == newv) if nt["k"] == "str" else (isinstance(got, np.generic) and got.tobytes() == newv.tobytes())
            if not ok:
                viol(f"write-through-not-visible|{nt['k']}", f"{l}: wrote {newv!r} via {'handle' if src is h else 'view'}, other side reads {got!r}")
        # 4. numpy views of scalar arrays alias the object: a store through the view of one side is read through
        #    item access on the other side
        arrs = [(p, l, nt, nv) for p, l, nt, nv in nodes(t, c.mv) if nt["k"] == "ar" and nt["it"]["k"] == "sc" and nv is not None and nv.items]
        rng.shuffle(arrs)
        for p, l, nt, nv in arrs[:3]:
            src, dst = (h, v) if rng.random() < 0.5 else (v, h)
            idx = rng.choice(sorted(nv.items))
            newv = c.vg.scalar(nt["it"]["t"])
            try:
                a = get_path(src, p) if p else src
                npv = a.to_nplike() if rng.random() < 0.5 else a.to_nparray()
                npv[idx] = newv
                b = get_path(dst, p) if p else dst
                got = b[idx if len(idx) > 1 else idx[0]]
            except Exception as e:
                viol(f"nplike-write-{exc_kind(e)}|{ar_sig(nt)}", f"{l}: {type(e).__name__}: {e}")
                continue
            w.count("nplike_write_through_checks")
            if not (isinstance(got, np.generic) and got.tobytes() == newv.tobytes()):
                viol(f"nplike-view-does-not-alias|{ar_sig(nt)}", f"{l}{list(idx)}: stored {newv!r} through to_nplike() of the {'handle' if src is h else 'view'}, other side reads {got!r}")
        w.case([shape_sig(t), env.kind, env.al, c.mode], sample=c.info if c.nontrivial and rng.random() < 0.003 else None,
               nontrivial=c.nontrivial)
    finally:
        env.close()
        flush_contracts(w, c.info)
