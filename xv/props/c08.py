"""C08 — references alias, null and survive buffer growth as documented.

History + executable model: an object graph with identities.  Every object
(holder or referent) has an id, a type, a model value whose reference slots hold
ids (or None) and a live handle.  After every step every object is re-read and
every slot is resolved and compared with the graph.
"""
import struct as _struct

import numpy as np

import xobjects as xo
from xv import bufmon
from xv.typegen import TypeGen, ValGen, build, plain, AVal, shape_sig, is_static, auto_array_name
from xv.model import Env, Obs, compare, exc_kind, nodes, get_path, set_path, set_model
from xv.decoder import decode, NULLVALUE
from xv.props.common import ctxs, flush_contracts

ID = "C08"
LEVEL = "exploration"
N_QUICK, N_THOROUGH = 14000, 300000
T_QUICK, T_THOROUGH = 70, 1500
OPS = ["construct", "construct-empty", "construct-union", "copy-holder", "bind-other-type", "bind-existing", "bind-value", "bind-foreign", "bind-null",
       "write-through-ref", "write-through-original", "grow"]
FLOORS = {"histories": 1500, "steps": 20000, "slot_resolutions": 100000, "growths": 1000, "alias_checks": 20000,
          "null_checks": 20000, "raw_null_union_checks": 3000, "live_extent_checks": 30000,
          "empty_nd_reference_arrays": 300, "copy_same_buffer": 300, "copy_other_buffer": 300, "toplevel_union_get": 3000, "second_handle_resolutions": 50000, "copies_of_holders_with_default_targets": 200, "arrays_of_items_with_default_targets": 300}
FLOORS.update({"op:" + o: 800 for o in OPS})
FLOORS["op:bind-other-type"] = 150
FLOORS["union_object_given_as_value"] = 150  # accepted (the slot then denotes the union object's referent) or refused
RULE = ("generated reference-bearing types (Ref and UnionRef as struct fields and as array items, referents that hold "
        "references themselves, 1-3 dimensional arrays of references in any axis order created without values) in two "
        "buffers; histories of <=25 steps over {construct, construct-empty, copy of a holder into the same / the other "
        "buffer (same referents / duplicated referents), bind-to-existing (also a union reference object of the slot's class, which stands for its referent; targets of automatically named array classes evaluated afresh, arrays of arrays), "
        "bind-to-value, bind-to-foreign-object, bind-to-null, write-through-ref, write-through-original, "
        "allocate-until-growth}; after EVERY step each object is re-read against the graph model and each slot is "
        "resolved: alias => same offset/buffer and writes visible both ways; value/foreign => fresh extent inside a "
        "live allocation of the holder's buffer made during the step, disjoint from all known objects, source writes "
        "invisible; null => None and (union) raw member index -1; every non-null reference resolves inside live "
        "memory to the recorded member type, also after growth. distinct = (holder shape, op sequence prefix).")
ASSUMPTIONS = ["the raw null encoding of a union slot is located with the independent decoder"]


class Oid:
    __slots__ = ("i",)

    def __init__(self, i):
        self.i = i

    def __repr__(self):
        return f"#{self.i}"


class GObj:
    def __init__(self, i, t, mv, h, env):
        self.i, self.t, self.mv, self.h, self.env = i, t, mv, h, env


def sc(n):
    return {"k": "sc", "t": n}


def gen_types(rng, tg):
    P = {"k": "st", "n": tg.name("P"), "f": [["x", sc("Int64")], ["y", sc(rng.choice(["Float64", "Int16", "UInt8"]))]]}
    if rng.random() < 0.4:
        P["f"].append(["s", {"k": "str"}])
    Q = {"k": "ar", "n": tg.name("Q"), "it": sc(rng.choice(["Int32", "Float64", "Int8"])),
         "dims": [rng.choice([None, None, 3])], "ord": [0]}
    if rng.random() < 0.35:
        # the automatically named class, evaluated afresh at every use (xo.Ref[xo.Float64[:]] here, xo.Float64[:](...) there)
        Q["anon"] = True
        Q["n"] = auto_array_name(Q["it"], Q["dims"])
    R = {"k": "st", "n": tg.name("R"), "f": [["v", sc("Int64")], ["nxt", {"k": "ref", "to": P}]]}
    # a target that is an array of arrays (or of references), named or automatically named at either level
    wi = sc(rng.choice(["Int64", "Float64", "Int16"]))
    if rng.random() < 0.75:
        wit = {"k": "ar", "n": tg.name("Wi"), "it": wi, "dims": [rng.choice([None, None, 2])], "ord": [0]}
        if rng.random() < 0.6:
            wit["anon"] = True
            wit["n"] = auto_array_name(wi, wit["dims"])
    else:
        wit = {"k": "ref", "to": P}
    W = {"k": "ar", "n": tg.name("W"), "it": wit, "dims": [rng.choice([None, None, 2])], "ord": [0]}
    if rng.random() < 0.6:
        W["anon"] = True
        W["n"] = auto_array_name(wit, W["dims"])
    mem = [P, Q, R, W]
    rng.shuffle(mem)
    U = {"k": "ur", "n": tg.name("U"), "m": mem[: rng.randint(1, 3)]}
    # a union class derived from U that declares the same members in another order
    Us = {"k": "ur", "n": tg.name("Us"), "m": list(reversed(U["m"])), "base": U["n"]} if len(U["m"]) > 1 else None
    pool = [("rp", {"k": "ref", "to": P}), ("rq", {"k": "ref", "to": Q}), ("u", U), ("rr", {"k": "ref", "to": R}), ("rw", {"k": "ref", "to": W}),
            ("arp", {"k": "ar", "n": tg.name("AR"), "it": {"k": "ref", "to": P}, "dims": [rng.choice([2, None])], "ord": [0]}),
            ("au", {"k": "ar", "n": tg.name("AU"), "it": U, "dims": [rng.choice([2, None])], "ord": [0]}),
            ("k", sc("Int64")), ("name", {"k": "str"}),
            ("m", {"k": "ar", "n": tg.name("M"), "it": {"k": "ref", "to": Q}, "dims": [2, None], "ord": [1, 0]})]
    if Us is not None:
        pool.append(("us", Us))
        pool.append(("u2", U))  # the parent union is in use as well
    holders = []
    for _ in range(2):
        r = rng.random()
        if r < 0.7:
            fs = rng.sample(pool, rng.randint(1, 5))
            if not any(f[1]["k"] in ("ref", "ur", "ar") and f[0] not in ("k", "name") for f in fs):
                fs.append(pool[0])
            hd = {"k": "st", "n": tg.name("H"), "f": [[a, b] for a, b in fs]}
            # reference fields may declare a default target; a reference given as None is null all the same
            dflt = {}
            for a, b in fs:
                if b["k"] == "ref" and b["to"] is Q and rng.random() < 0.5:
                    dflt[a] = [1, 2, 3] if Q["dims"][0] in (None, 3) else None
                elif b["k"] == "ref" and b["to"] is P and rng.random() < 0.3 and len(P["f"]) == 2:
                    dflt[a] = {"x": 5, "y": 1}
            dflt = {k_: v_ for k_, v_ in dflt.items() if v_ is not None}
            if dflt:
                hd["dflt"] = dflt
            holders.append(hd)
        elif r < 0.85:
            holders.append(pool[5][1])
        else:
            holders.append(pool[6][1])
    # arrays of references of 1-3 dimensions, created without values (every slot must then be null)
    def nd_dims():
        nd = rng.choice([1, 2, 2, 3])
        dims = [rng.choice([None, 2, 3]) for _ in range(nd)]
        order = list(range(nd))
        if rng.random() < 0.5:
            rng.shuffle(order)
        return dims, order
    d1, o1 = nd_dims()
    d2, o2 = nd_dims()
    E1 = {"k": "ar", "n": tg.name("E"), "it": {"k": "ref", "to": rng.choice([P, Q])}, "dims": d1, "ord": o1}
    E2 = {"k": "ar", "n": tg.name("E"), "it": U, "dims": d2, "ord": o2}
    # an array of structs whose reference field declares a non-null default target: created without values, every
    # item must get a target of its own
    N = {"k": "st", "n": tg.name("N"), "f": [["v", sc("Int64")], ["r", {"k": "ref", "to": Q}]], "dflt": {"r": [1, 2, 3]}}
    E3 = {"k": "ar", "n": tg.name("E"), "it": N, "dims": [rng.choice([None, 2, 3])], "ord": [0]}
    # a class that is NOT the declared target of Ref[Q] but holds compatible data (same items, other extents declaration)
    Qx = {"k": "ar", "n": tg.name("Qx"), "it": Q["it"], "dims": [None] if Q["dims"][0] is not None else [rng.choice([1, 2, 3])], "ord": [0]}
    return dict(P=P, Q=Q, R=R, U=U, E1=E1, E2=E2, Qx=Qx, N=N, E3=E3, W=W), holders


class Graph:
    def __init__(self, w, rng, envs, cache, info):
        self.w, self.rng, self.envs, self.cache, self.info = w, rng, envs, cache, info
        self.objs = {}
        self.n = 0
        self.hist = []
        self.seen = set()
        self.bad = False

    def viol(self, mech, msg):
        self.bad = True
        if mech not in self.seen:
            self.seen.add(mech)
            self.w.violation(mech, msg, dict(self.info, history=self.hist[-14:]))

    # ---- registration
    def intern(self, t, pv, env):
        """plain model value (no ids) -> model value with ids; registers the
        objects that the library will create for non-null references (handles
        are attached later by `attach`)."""
        k = t["k"]
        if k in ("sc", "str"):
            return pv
        if k == "st":
            return {fn: self.intern(ft, pv[fn], env) for fn, ft in t["f"]}
        if k == "ar":
            return AVal(pv.shape, {i: self.intern(t["it"], v, env) for i, v in pv.items.items()})
        if k == "ref":
            return None if pv is None else Oid(self.new(t["to"], pv, env).i)
        if k == "ur":
            return None if pv is None else (pv[0], Oid(self.new(t["m"][pv[0]], pv[1], env).i))

    def new(self, t, pv, env, h=None):
        self.n += 1
        o = GObj(self.n, t, None, h, env)
        self.objs[o.i] = o
        o.mv = self.intern(t, pv, env)
        return o

    def attach(self, o):
        """Give handles to objects created implicitly under o (by reading through o's slots)."""
        for path, label, nt, nv in nodes(o.t, o.mv, through_refs=False):
            if nt["k"] in ("ref", "ur") and nv is not None:
                tid = nv.i if nt["k"] == "ref" else nv[1].i
                tgt = self.objs[tid]
                if tgt.h is None:
                    tgt.h = get_path(o.h, path)
                    self.attach(tgt)

    def materialize(self, t, mv):
        k = t["k"]
        if k in ("sc", "str"):
            return mv
        if k == "st":
            return {fn: self.materialize(ft, mv[fn]) for fn, ft in t["f"]}
        if k == "ar":
            return AVal(mv.shape, {i: self.materialize(t["it"], v) for i, v in mv.items.items()})
        if k == "ref":
            return None if mv is None else self.materialize(t["to"], self.objs[mv.i].mv)
        if k == "ur":
            return None if mv is None else (mv[0], self.materialize(t["m"][mv[0]], self.objs[mv[1].i].mv))

    def slots(self, o):
        return [(p, l, nt, nv) for p, l, nt, nv in nodes(o.t, o.mv, through_refs=False) if nt["k"] in ("ref", "ur")]

    # ---- the oracle, after every step
    def check_all(self, fresh=()):
        w = self.w
        ext = {}
        for o in self.objs.values():
            if o.h is None:
                continue
            cm = compare(o.t, self.materialize(o.t, o.mv), o.h, full=False)
            w.count("object_rereads")
            for path, kind, detail, sig in cm.errs[:2]:
                self.viol(f"reread:{kind}|{sig}", f"object #{o.i} ({o.t['n']}) {path}: {detail}")
            try:
                ext[o.i] = (int(o.h._offset), int(o.h._offset) + (16 if o.t["k"] == "ur" else int(o.h._get_size())))
            except Exception as e:
                self.viol(f"size-{exc_kind(e)}", f"object #{o.i}: {e}")
        if self.bad:
            return
        for o in self.objs.values():
            if o.h is None:
                continue
            raw = None
            if o.t["k"] != "ur" and getattr(o, "h2", None) is None:
                # a second Python object on the same memory, kept for the whole history: what was read through it
                # before a re-binding made through the first handle must not be remembered
                try:
                    o.h2 = type(o.h)._from_buffer(o.h._buffer, o.h._offset)
                except Exception:
                    o.h2 = None
            for path, label, nt, nv in self.slots(o):
                w.count("slot_resolutions")
                try:
                    if path:
                        got = get_path(o.h, path)
                        if getattr(o, "h2", None) is not None:
                            got2 = get_path(o.h2, path)
                            w.count("second_handle_resolutions")
                            if (got is None) != (got2 is None) or (got is not None and
                                                                 (int(got._offset) != int(got2._offset) or type(got) is not type(got2))):
                                self.viol("second-handle-resolves-reference-differently",
                                          f"#{o.i}{label}: first handle -> {got!r}, older second handle -> {got2!r}")
                    elif o.t["k"] == "ur":
                        got = o.h.get()  # a top-level union reference object
                        w.count("toplevel_union_get")
                    else:
                        got = None
                except Exception as e:
                    self.viol(f"resolve-{exc_kind(e)}", f"#{o.i}{label}: {type(e).__name__}: {e}")
                    continue
                if nv is None:
                    w.count("null_checks")
                    if got is not None:
                        self.viol(f"null-reads-non-null|{nt['k']}", f"#{o.i}{label} reads {got!r}")
                    if nt["k"] == "ur":
                        if raw is None:
                            raw = self.raw_slots(o)
                        if label in raw:
                            w.count("raw_null_union_checks")
                            rel, tid = raw[label]
                            if rel != NULLVALUE or tid != -1:
                                self.viol("null-union-raw-encoding", f"#{o.i}{label}: raw (offset, member index) = ({rel}, {tid})")
                    continue
                tid = nv.i if nt["k"] == "ref" else nv[1].i
                tgt = self.objs[tid]
                if got is None:
                    self.viol(f"non-null-reads-None|{nt['k']}", f"#{o.i}{label} -> #{tid}")
                    continue
                w.count("alias_checks")
                if type(got).__name__ != tgt.t["n"]:
                    self.viol("wrong-member-type", f"#{o.i}{label}: {type(got).__name__}, model {tgt.t['n']}")
                    continue
                if got._buffer is not o.h._buffer:
                    self.viol("referent-in-other-buffer", f"#{o.i}{label}")
                if tgt.h is not None and (int(got._offset) != int(tgt.h._offset) or got._buffer is not tgt.h._buffer):
                    self.viol("reference-does-not-denote-recorded-object",
                              f"#{o.i}{label} resolves to offset {got._offset}, object #{tid} lives at {tgt.h._offset}")
                lo, hi = int(got._offset), int(got._offset) + int(got._get_size())
                w.count("live_extent_checks")
                if not o.env.fol.sh.is_live(lo, hi):
                    self.viol("referent-not-in-live-memory", f"#{o.i}{label}: [{lo},{hi}) live={sorted(o.env.fol.sh.live_intervals())[:10]}")
        # objects created in this step: fresh extents
        for i in fresh:
            o = self.objs[i]
            if o.h is None or i not in ext:
                continue
            for j, e in ext.items():
                oj = self.objs[j]
                if j != i and oj.env is o.env and oj.h is not None and e[0] < ext[i][1] and ext[i][0] < e[1] and e[1] > e[0]:
                    self.viol("new-object-overlaps-existing", f"#{i} {ext[i]} overlaps #{j} {e}")

    def raw_slots(self, o):
        rawb = bufmon.raw_bytes(o.env.buf)
        v, e, errs, targets = decode(o.t, rawb, int(o.h._offset))
        out = {}
        if e is None:
            return out
        for r in [e] + targets:
            for x in r.flat():
                if x.kind == "ur":
                    lab = x.label[4:] if x.label.startswith("root") else x.label
                    out["root" + lab] = _struct.unpack_from("<qq", rawb, x.start)
        return out


def leaf_choices(t, mv):
    return [(p, l, nt, nv) for p, l, nt, nv in nodes(t, mv, through_refs=False) if nt["k"] in ("sc", "str") and p]


def run_case(w, rng):
    tg = TypeGen(rng)
    tt, holders = gen_types(rng, tg)
    cache = {}
    for t in list(tt.values()) + holders:
        build(t, cache)
    envA = Env(rng, ctx=ctxs()[0], neighbours=rng.choice([0, 2]))
    ctxB = rng.choice(ctxs())
    # two buffer *kinds* are never mixed inside one context (DESIGN 1/E1 domain restrictions)
    envB = Env(rng, ctx=ctxB, neighbours=0, kind=envA.kind if ctxB is envA.ctx else None)
    vg = ValGen(rng, nulls=0.5)
    info = dict(types={k: v for k, v in tt.items()}, holders=holders, A=envA.placement(), B=envB.placement())
    G = Graph(w, rng, (envA, envB), cache, info)
    ops = []
    try:
        nsteps = rng.randint(6, 25)
        w.count("histories")
        for step in range(nsteps):
            holders_live = [o for o in G.objs.values() if o.h is not None and G.slots(o)]
            op = rng.choice(OPS) if holders_live else "construct"
            fresh = []
            try:
                done = _step(G, op, rng, vg, tt, holders, holders_live, fresh)
            except Exception as e:
                G.viol(f"{op}-{exc_kind(e)}", f"{type(e).__name__}: {e}")
                break
            if not done:
                continue
            w.count("steps")
            w.count("op:" + op)
            ops.append(op[0] + op[-1])
            for e in (envA, envB):
                e.repoison()
            G.check_all(fresh)
            if G.bad:
                break
        w.case([shape_sig(holders[0]), shape_sig(holders[1]), "".join(ops[:8])],
               sample=dict(info, history=G.hist[:12]) if rng.random() < 0.004 else None, nontrivial=len(ops) >= 4)
    finally:
        envA.close()
        envB.close()
        flush_contracts(w, info)


def _new_object(G, t, rng, vg, env, fresh):
    pv = vg.value(t)
    n0 = G.n
    o = G.new(t, pv, env)
    cls = build(t, G.cache)
    arg = plain(t, pv, rng)
    o.h = cls(arg, _buffer=env.buf)
    G.attach(o)
    fresh.extend(range(n0 + 1, G.n + 1))
    return o


def _step(G, op, rng, vg, tt, holders, holders_live, fresh):
    envA, envB = G.envs
    if op == "construct":
        t = rng.choice(holders + list(tt.values())[:3])
        if t["k"] == "ur":
            return False
        env = envA if rng.random() < 0.7 else envB
        o = _new_object(G, t, rng, vg, env, fresh)
        G.hist.append(["construct", t["n"], f"#{o.i}", "A" if env is envA else "B"])
        return True
    if op == "construct-empty":
        t = rng.choice([tt["E1"], tt["E2"], tt["E3"]])
        env = envA if rng.random() < 0.7 else envB
        shape = [d if d is not None else rng.randint(1, 3) for d in t["dims"]]
        if t is tt["E3"]:
            from xv.typegen import DT
            qd = DT[tt["Q"]["it"]["t"]]
            pv = AVal(shape, {idx: {"v": np.int64(0), "r": AVal((3,), {(i,): qd.type(i + 1) for i in range(3)})}
                              for idx in np.ndindex(*shape)})
            G.w.count("arrays_of_items_with_default_targets")
        else:
            pv = AVal(shape, {idx: None for idx in np.ndindex(*shape)})
        n0 = G.n
        o = G.new(t, pv, env)
        dyn = [sh for sh, d in zip(shape, t["dims"]) if d is None]
        o.h = build(t, G.cache)(*dyn, _buffer=env.buf)
        if t is tt["E3"]:
            G.attach(o)
        fresh.extend(range(n0 + 1, G.n + 1))
        G.w.count("empty_reference_slots", int(np.prod(shape)))
        if len(shape) > 1:
            G.w.count("empty_nd_reference_arrays")
        G.hist.append([op, t["n"], shape, t["ord"], f"#{o.i}", "A" if env is envA else "B"])
        return True
    if op == "construct-union":
        # a union reference as an object of its own: U() / U(None) / U(obj in the same buffer) / U(name, data) /
        # U(obj of another buffer); read with .get()
        U = tt["U"]
        env = envA if rng.random() < 0.7 else envB
        ucls = build(U, G.cache)
        mi = rng.randrange(len(U["m"]))
        mt = U["m"][mi]
        form = rng.choice(["null", "existing", "value", "foreign"])
        n0 = G.n
        if form == "existing":
            cand = [x for x in G.objs.values() if x.h is not None and x.env is env and x.t is mt]
            if not cand:
                form = "value"
        if form == "null":
            G.n += 1
            o = GObj(G.n, U, None, None, env)
            G.objs[o.i] = o
            o.h = ucls(_buffer=env.buf) if rng.random() < 0.5 else ucls(None, _buffer=env.buf)
        elif form == "existing":
            tgt = rng.choice(cand)
            G.n += 1
            o = GObj(G.n, U, (mi, Oid(tgt.i)), None, env)
            G.objs[o.i] = o
            o.h = ucls(tgt.h, _buffer=env.buf)
        else:
            if form == "value":
                pv = vg.value(mt)
                args = (mt["n"], plain(mt, pv, rng))
            else:
                other = envB if env is envA else envA
                src = _new_object(G, mt, rng, vg, other, [])
                n0 = G.n
                pv = G.materialize(mt, src.mv)
                args = (src.h,)
            G.n += 1
            o = GObj(G.n, U, None, None, env)
            G.objs[o.i] = o
            new = G.new(mt, pv, env)
            o.mv = (mi, Oid(new.i))
            o.h = ucls(*args, _buffer=env.buf)
            new.h = o.h.get()
            if new.h is None:
                G.viol("construct-union-reads-None", f"{form}")
                return True
            G.attach(new)
        fresh.extend(range(n0 + 1, G.n + 1))
        G.w.count("toplevel_unions:" + form)
        G.hist.append([op, form, mt["n"], f"#{o.i}", "A" if env is envA else "B"])
        return True
    if op == "copy-holder":
        if not holders_live:
            return False
        src = rng.choice(holders_live)
        if src.t["k"] == "ur":
            return False  # U(u) takes its argument as a *member* object; a union object is not copy-constructible
        same = rng.random() < 0.5
        env = src.env if same else (envB if src.env is envA else envA)
        if env.ctx is not src.env.ctx and env.kind != src.env.kind:
            pass  # different contexts may use different buffer kinds
        cls = build(src.t, G.cache)
        n0 = G.n
        if same:
            # the copy's references denote the very same referents
            G.n += 1
            o = GObj(G.n, src.t, src.mv, None, env)
            G.objs[o.i] = o
            o.h = cls(src.h, _buffer=env.buf)
            fresh.append(o.i)
        else:
            # every referent is duplicated into the copy's buffer
            o = G.new(src.t, G.materialize(src.t, src.mv), env)
            o.h = cls(src.h, _buffer=env.buf)
            G.attach(o)
            fresh.extend(range(n0 + 1, G.n + 1))
        if src.t.get("dflt"):
            G.w.count("copies_of_holders_with_default_targets")
        G.w.count("copy_same_buffer" if same else "copy_other_buffer")
        G.hist.append([op, f"#{src.i} -> #{o.i}", "same buffer" if same else "other buffer"])
        return True
    if op == "grow":
        env = envA if rng.random() < 0.7 else envB
        g = env.force_growth()
        G.w.count("growths", g)
        G.hist.append(["grow", "A" if env is envA else "B", env.buf.capacity])
        return True
    o = rng.choice(holders_live)
    slots = G.slots(o)
    if op == "bind-other-type":
        # an object of ANOTHER class living in the holder's own buffer: the reference must not denote it (it would be
        # read with the wrong layout); a new object of the declared type is created from its data
        cand = [x for x in slots if x[0] and x[2]["k"] == "ref" and x[2]["to"] is tt["Q"]]
        if not cand:
            return False
        p, l, nt, nv = rng.choice(cand)
        Q, Qx = tt["Q"], tt["Qx"]
        n = Q["dims"][0] if Q["dims"][0] is not None else Qx["dims"][0]
        pv = AVal((n,), {(i,): vg.scalar(Q["it"]["t"]) for i in range(n)})
        other = build(Qx, G.cache)(plain(Qx, pv, rng), _buffer=o.env.buf)
        n0 = G.n
        obs = Obs(o.env)
        set_path(o.h, p, other)
        obs.done()
        new = G.new(Q, pv, o.env)
        o.mv = set_model(o.t, o.mv, p, Oid(new.i))
        new.h = get_path(o.h, p)
        if new.h is None:
            G.viol("bind-other-type-reads-None", f"#{o.i}{l}")
            return True
        fresh.extend(range(n0 + 1, G.n + 1))
        if int(new.h._offset) == int(other._offset):
            G.viol("reference-denotes-object-of-another-class", f"#{o.i}{l} -> {type(other).__name__} at {other._offset}")
        lo, hi = int(new.h._offset), int(new.h._offset) + int(new.h._get_size())
        if not bufmon.inside(lo, hi, [(a, a + s_) for a, s_ in obs.allocs]):
            G.viol("bind-other-type:new-object-not-in-allocation-of-this-step", f"[{lo},{hi}) allocations {obs.allocs}")
        G.hist.append([op, f"#{o.i}{l}", Qx["n"], f"-> #{new.i}"])
        return True
    if op.startswith("bind"):
        p, l, nt, nv = rng.choice(slots)
        if not p:
            return False
        k = nt["k"]
        members = [nt["to"]] if k == "ref" else nt["m"]
        mi = rng.randrange(len(members))
        mt = members[mi]
        if op == "bind-null":
            set_path(o.h, p, None)
            o.mv = set_model(o.t, o.mv, p, None)
            G.hist.append([op, f"#{o.i}{l}"])
            return True
        if op == "bind-existing" and k == "ur" and rng.random() < 0.8:
            # the value is a union reference OBJECT of the slot's own class living in the same buffer (null or not):
            # the slot must then denote what that object denotes (the very same referent)
            ucand = [x for x in G.objs.values() if x.h is not None and x.env is o.env and x.t is nt]
            if ucand:
                uo = rng.choice(ucand)
                G.w.count("union_object_given_as_value")
                try:
                    set_path(o.h, p, uo.h)
                except (TypeError, ValueError):
                    # refusing a value that is not a member object is an honest outcome too (the property speaks of
                    # member objects); nothing may have changed then, which the re-read below verifies
                    G.w.count("union_object_as_value_refused")
                    G.hist.append([op, f"#{o.i}{l}", f"union object #{uo.i} refused"])
                    return True
                o.mv = set_model(o.t, o.mv, p, uo.mv)
                G.w.count("union_object_bound_to_union_slot")
                G.hist.append([op, f"#{o.i}{l}", f"union object #{uo.i}"])
                return True
        if op == "bind-existing":
            cand = [x for x in G.objs.values() if x.h is not None and x.env is o.env and x.t is mt]
            if not cand:
                return False
            tgt = rng.choice(cand)
            set_path(o.h, p, tgt.h)
            o.mv = set_model(o.t, o.mv, p, Oid(tgt.i) if k == "ref" else (mi, Oid(tgt.i)))
            G.hist.append([op, f"#{o.i}{l}", f"#{tgt.i}"])
            return True
        n0 = G.n
        if op == "bind-value":
            pv = vg.value(mt)
            arg = plain(mt, pv, rng)
            if k == "ur":
                arg = (mt["n"], arg)
            src = None
        else:  # bind-foreign: an object that lives in another buffer
            other = envB if o.env is envA else envA
            cand = [x for x in G.objs.values() if x.h is not None and x.env is other and x.t is mt]
            if cand and rng.random() < 0.7:
                src = rng.choice(cand)
            else:
                src = _new_object(G, mt, rng, vg, other, [])
                n0 = G.n
            pv = G.materialize(mt, src.mv)
            arg = src.h
        obs = Obs(o.env)
        set_path(o.h, p, arg)
        obs.done()
        new = G.new(mt, pv, o.env)
        o.mv = set_model(o.t, o.mv, p, Oid(new.i) if k == "ref" else (mi, Oid(new.i)))
        new.h = get_path(o.h, p)
        if new.h is None:
            G.viol(f"{op}-reads-None", f"#{o.i}{l} reads None right after binding")
            return True
        G.attach(new)
        fresh.extend(range(n0 + 1, G.n + 1))
        lo, hi = int(new.h._offset), int(new.h._offset) + int(new.h._get_size())
        if not bufmon.inside(lo, hi, [(a, a + s) for a, s in obs.allocs]):
            G.viol(f"{op}:new-object-not-in-allocation-of-this-step", f"[{lo},{hi}) allocations during the step: {obs.allocs}")
        if src is not None and src.h._buffer is new.h._buffer:
            G.viol("foreign-object-not-copied", f"#{src.i}")
        G.hist.append([op, f"#{o.i}{l}", mt["n"], f"-> #{new.i}"])
        return True
    # writes
    if op == "write-through-ref":
        nn = [(p, l, nt, nv) for p, l, nt, nv in slots if nv is not None and p]
        if not nn:
            return False
        p, l, nt, nv = rng.choice(nn)
        tid = nv.i if nt["k"] == "ref" else nv[1].i
        tgt = G.objs[tid]
        handle = get_path(o.h, p)
        if handle is None:
            G.viol("non-null-reads-None|write", f"#{o.i}{l}")
            return True
    else:
        cand = [x for x in G.objs.values() if x.h is not None]
        tgt = rng.choice(cand)
        handle = tgt.h
    leaves = leaf_choices(tgt.t, tgt.mv)
    if not leaves:
        return False
    lp, ll, lt, lv = rng.choice(leaves)
    newv = vg.same_shape(lt, lv)
    set_path(handle, lp, newv if lt["k"] == "str" else newv.item())
    tgt.mv = set_model(tgt.t, tgt.mv, lp, newv)
    G.hist.append([op, f"#{tgt.i}{ll}", repr(newv)[:40]])
    return True
