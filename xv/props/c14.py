"""C14 — every class API is emitted once, after all of its dependencies."""
import re

import xobjects as xo
from xobjects.context import sort_classes, sources_from_classes, classes_from_kernels
from xv.typegen import SC, _uid
from xv.model import exc_kind

xo.general._print.suppress = True

ID = "C14"
LEVEL = "exploration"
N_QUICK, N_THOROUGH = 4800, 200000
T_QUICK, T_THOROUGH = 75, 1500
FLOORS = {"graphs": 800, "builds": 150, "with_fieldless": 150, "cyclic": 100, "order_edges_checked": 5000,
          "guards_checked": 4000, "duplicate_roots": 100, "with_depends_on": 200, "kernels_built_and_called": 50,
          "with_hybrid_depends_on": 100, "late_edges": 100, "sorted_once_before_cycle": 20,
          "stale_same_named_class_listed_first": 60, "with_depends_on_on_array_or_union": 100, "anonymous_array_class_and_named_subclass": 40,
          "kernels_returning_a_class_not_listed": 30, "builds_from_kernel_arguments_only": 40,
          "kernel_argument_classes_collected": 80}
RULE = ("random dependency DAGs of 2-10 classes of every kind (structs with nested/array/Ref/UnionRef fields, field-less "
        "structs, hybrid classes, array classes, union references, Ref types, declared _depends_on edges on structs and on "
        "hybrid classes naming plain and hybrid classes), random root subsets, orders "
        "and duplicate roots; oracle: sort_classes lists every class of the dependency closure (computed from the "
        "generator's own graph) exactly once and after all of its dependencies; every XOBJ_TYPEDEF guard occurs once "
        "and before the first use of the type name; a sample is built with the real ContextCpu.add_kernels (cffi cdef "
        "+ gcc) and an accessor of a root is called; graphs with a _depends_on cycle must raise and build nothing. "
        "distinct = (node kinds, edge multiset shape, roots pattern).")
ASSUMPTIONS = ["class names are unique per graph (the library keys classes by __name__)"]

_ctx = None


def ctx():
    global _ctx
    if _ctx is None:
        _ctx = xo.ContextCpu()
        _ctx._compile_kernels_info = False
    return _ctx


class Node:
    def __init__(self, name, kind, cls, deps):
        self.name, self.kind, self.cls, self.deps = name, kind, cls, list(deps)


def gen_graph(rng):
    pre = f"G{next(_uid)}"
    nodes = []  # in creation order; deps only point backwards

    def add(kind, cls, deps, name=None):
        n = Node(name or cls.__name__, kind, cls, deps)
        nodes.append(n)
        return n

    def compound():
        return [n for n in nodes if n.kind in ("S", "E", "A")]

    nmain = rng.randint(2, 8)
    for i in range(nmain):
        r = rng.random()
        cands = compound()
        if r < 0.15:
            cls = type(f"{pre}E{i}", (xo.Struct,), {})
            add("E", cls, [])
        elif r < 0.65:
            fields, deps = {}, []
            for j in range(rng.randint(1, 4)):
                fr = rng.random()
                if fr < 0.3 or not cands:
                    fields[f"f{j}"] = SC[rng.choice(["Int64", "Float64", "Int8"])] if rng.random() < 0.8 else xo.String
                    continue
                d = rng.choice(cands)
                if fr < 0.5:
                    fields[f"f{j}"] = d.cls
                    deps.append(d)
                elif fr < 0.7:
                    an = add("A", type(f"{pre}X{i}_{j}", (d.cls[rng.choice([2, slice(None)])],), {}), [d])
                    fields[f"f{j}"] = an.cls
                    deps.append(an)
                elif fr < 0.88:
                    rf = xo.Ref[d.cls]
                    rn = next((n for n in nodes if n.name == rf.__name__), None) or add("R", rf, [d], rf.__name__)
                    fields[f"f{j}"] = rf
                    deps.append(rn)
                else:
                    ms = rng.sample(cands, min(len(cands), rng.randint(1, 2)))
                    un = add("U", type(f"{pre}U{i}_{j}", (xo.UnionRef,), {"_reftypes": [m.cls for m in ms]}), ms)
                    fields[f"f{j}"] = un.cls
                    deps.append(un)
            extra = []
            hybrid = rng.random() < 0.3
            if cands and rng.random() < (0.5 if hybrid else 0.25):
                extra = rng.sample(cands, min(len(cands), rng.choice([1, 1, 2])))
            if hybrid:
                # a HybridClass: its _XoStruct is the class that takes part in the C API; declared dependencies may
                # name plain xobjects classes as well as other hybrid classes
                ns = {"_xofields": dict(fields)}
                if extra:
                    ns["_depends_on"] = [getattr(e, "hy", e.cls) if rng.random() < 0.7 else e.cls for e in extra]
                hy = type(f"{pre}H{i}", (xo.HybridClass,), ns)
                n = add("S", hy._XoStruct, deps + extra)
                n.hy = hy
                n.has_dep_on = bool(extra)
                n.hybrid_dep_on = bool(extra)
                continue
            if extra:
                fields["_depends_on"] = [e.cls for e in extra]
            cls = type(f"{pre}S{i}", (xo.Struct,), fields)
            n = add("S", cls, deps + extra)
            n.has_dep_on = bool(extra)
        elif r < 0.85:
            if cands and rng.random() < 0.25:
                # an array whose items are references: the target is reached only through the Ref item type
                d = rng.choice(cands)
                rf = xo.Ref[d.cls]
                rn = next((n for n in nodes if n.name == rf.__name__), None) or add("R", rf, [d], rf.__name__)
                an = add("A", type(f"{pre}AR{i}", (rf[rng.choice([3, slice(None)])],), {}), [rn])
                an.array_of_refs = True
            elif cands and rng.random() < 0.2:
                # the automatically named array class itself AND a named class derived from that very class object
                d = rng.choice(cands)
                base = d.cls[rng.choice([3, slice(None)])]
                if not any(n.name == base.__name__ for n in nodes):
                    bn = add("A", base, [d], base.__name__)
                    dn = add("A", type(f"{pre}D{i}", (base,), {}), [d])
                    bn.anon_base = dn.derived = True
            elif cands and rng.random() < 0.7:
                d = rng.choice(cands)
                ns, extra = {}, []
                if len(cands) > 1 and rng.random() < 0.3:
                    extra = [e for e in rng.sample(cands, 1) if e is not d]
                    if extra:
                        ns["_depends_on"] = [e.cls for e in extra]  # a declared dependency on a named array class
                an = add("A", type(f"{pre}A{i}", (d.cls[rng.choice([3, slice(None), (2, slice(None))])],), ns), [d] + extra)
                an.has_dep_on = bool(extra)
                an.nonstruct_dep_on = bool(extra)
            else:
                add("A", type(f"{pre}A{i}", (SC[rng.choice(["Float64", "Int32"])][rng.choice([3, slice(None)])],), {}), [])
        else:
            if cands:
                ms = rng.sample(cands, min(len(cands), rng.randint(1, 3)))
                ns = {"_reftypes": [m.cls for m in ms]}
                extra = []
                if rng.random() < 0.35:
                    extra = [e for e in rng.sample(cands, 1) if e not in ms]
                    if extra:
                        ns["_depends_on"] = [e.cls for e in extra]  # a declared dependency on a union
                un = add("U", type(f"{pre}U{i}", (xo.UnionRef,), ns), ms + extra)
                un.has_dep_on = bool(extra)
                un.nonstruct_dep_on = bool(extra)
            else:
                add("A", type(f"{pre}A{i}", (SC["Int64"][4],), {}), [])
    return nodes


def closure(roots):
    seen, order = {}, []

    def rec(n):
        if n.name in seen:
            return
        seen[n.name] = n
        for d in n.deps:
            rec(d)
        order.append(n)

    for r in roots:
        rec(r)
    return seen


def run_case(w, rng):
    nodes = gen_graph(rng)
    cyclic = rng.random() < 0.12
    info = dict(nodes=[(n.name, n.kind, [d.name for d in n.deps]) for n in nodes])
    structs = [n for n in nodes if n.kind == "S"]
    if cyclic:
        # close a cycle with a declared dependency from an early struct to a later class that (transitively) needs it
        cand = [(a, b) for a in structs for b in nodes if b is not a and a.name in closure([b]) and b.kind in ("S", "A", "E")]
        if not cand:
            cyclic = False
        else:
            a, b = rng.choice(cand)
            if rng.random() < 0.4:
                try:  # sorted once while still acyclic
                    sort_classes([a.cls, b.cls])
                    w.count("sorted_once_before_cycle")
                except Exception:
                    pass
            a.cls._depends_on.append(b.cls)
            info["cycle_edge"] = [a.name, b.name]
    k = rng.randint(1, min(4, len(nodes)))
    roots = rng.sample(nodes, k)
    late = rng.random() < 0.3
    if late:
        # the classes have been sorted / built once BEFORE a dependency is declared later on (a union gets a new
        # member, a class a new _depends_on entry): the second build must see the graph as it is then
        try:
            sort_classes([r.cls for r in roots])
        except Exception:
            pass
        w.count("sorted_once_before_late_edge")
        if not cyclic:
            cand2 = [(a, b) for ia, a in enumerate(nodes) for b in nodes[:ia]
                     if a.kind in ("S", "U") and b.kind in ("S", "A", "E") and b not in a.deps and not getattr(a, "hy", None)]
            if cand2:
                a, b = rng.choice(cand2)
                if a.kind == "U":
                    a.cls._reftypes.append(b.cls) if isinstance(a.cls._reftypes, list) else None
                    if isinstance(a.cls._reftypes, list):
                        a.deps.append(b)
                        info["late_edge"] = [a.name, b.name, "union member"]
                else:
                    a.cls._depends_on.append(b.cls)
                    a.deps.append(b)
                    a.has_dep_on = True
                    info["late_edge"] = [a.name, b.name, "_depends_on"]
                if "late_edge" in info:
                    w.count("late_edges")
                    if a.name not in closure(roots):
                        roots.append(a)
    if cyclic and not any(info["cycle_edge"][0] in closure([r]) for r in roots):
        roots.append(next(n for n in nodes if n.name == info["cycle_edge"][0]))
    dup = rng.random() < 0.2
    if dup:
        roots = roots + [rng.choice(roots)]
        w.count("duplicate_roots")
    rng.shuffle(roots)
    twin = None
    if rng.random() < 0.2:
        cs = [r for r in roots if r.kind == "S" and not getattr(r, "hy", None)]
        if cs:
            r0 = rng.choice(cs)
            # an older definition of the same name with fewer dependencies, listed first: "the last one is used"
            twin = type(r0.name, (xo.Struct,), {"old": xo.Int64})
            info["stale_twin_of"] = r0.name
            w.count("stale_same_named_class_listed_first")
    info["roots"] = [r.name for r in roots]
    info["cyclic"] = cyclic
    seen = set()

    def viol(mech, msg):
        if mech not in seen:
            seen.add(mech)
            w.violation(mech, msg, info)

    w.count("graphs")
    if any(n.kind == "E" for n in closure(roots).values()):
        w.count("with_fieldless")
    if any(getattr(n, "has_dep_on", False) for n in closure(roots).values()):
        w.count("with_depends_on")
    if any(getattr(n, "anon_base", False) for n in closure(roots).values()) and any(getattr(n, "derived", False) for n in closure(roots).values()):
        w.count("anonymous_array_class_and_named_subclass")
    if any(getattr(n, "nonstruct_dep_on", False) for n in closure(roots).values()):
        w.count("with_depends_on_on_array_or_union")
        if rng.random() < 0.5:
            try:  # several sorts in one process must agree
                sort_classes([r.cls for r in roots])
            except Exception:
                pass
    if any(getattr(n, "hybrid_dep_on", False) for n in closure(roots).values()):
        w.count("with_hybrid_depends_on")
    root_classes = [r.cls for r in roots]
    if twin is not None:
        root_classes.insert(0, twin)
    try:
        res = sort_classes(list(root_classes))
        raised = None
    except Exception as e:
        res, raised = None, e
    if cyclic:
        w.count("cyclic")
        if raised is None:
            viol("cycle-not-reported", f"sort_classes returned {[c.__name__ for c in res]}")
        k0 = len(ctx().kernels)
        try:
            ctx().add_kernels(kernels={}, extra_classes=[r.cls for r in roots])
            viol("cycle-built", "add_kernels succeeded on a cyclic graph")
        except Exception:
            pass
        if len(ctx().kernels) != k0:
            viol("cycle-produced-kernels", "kernels were registered")
        w.case(["cyclic", sorted(n.kind for n in nodes)], None)
        return
    if raised is not None:
        viol(f"sort-{exc_kind(raised)}", f"{type(raised).__name__}: {raised}")
        return
    want = closure(roots)
    names = [c.__name__ for c in res]
    if twin is not None and twin in res:
        viol("stale-same-named-class-emitted", f"the older definition of {twin.__name__} was emitted")
    for nm in want:
        cnt = names.count(nm)
        if cnt != 1:
            viol("class-emitted-%s" % ("twice" if cnt > 1 else "never"), f"{nm} occurs {cnt} times in {names}")
    for nm in names:
        if nm not in want and nm not in SC and nm != "String":
            viol("unexpected-class-emitted", f"{nm} in {names}")
    pos = {nm: i for i, nm in enumerate(names)}
    for n in want.values():
        for d in n.deps:
            w.count("order_edges_checked")
            if n.name in pos and d.name in pos and pos[d.name] > pos[n.name]:
                viol("dependency-emitted-after-dependent", f"{d.name} after {n.name} in {names}")
    # assembled source: guards once, before first use
    try:
        srcs = sources_from_classes(res)
        text = "\n".join(s.source if hasattr(s, "source") else s for s in srcs)
    except Exception as e:
        viol(f"source-{exc_kind(e)}", f"{type(e).__name__}: {e}")
        return
    for nm in want:
        w.count("guards_checked")
        g = [m.start() for m in re.finditer(r"#define XOBJ_TYPEDEF_%s\b" % re.escape(nm), text)]
        if len(g) != 1:
            viol("guard-block-count", f"{nm}: {len(g)} guard blocks")
            continue
        m = re.search(r"\b%s\b" % re.escape(nm), text)
        if m is None or m.start() < g[0]:
            viol("type-used-before-its-definition", f"{nm} first used at {m.start() if m else None}, defined at {g[0]}")
    # real build for a sample
    if not seen and rng.random() < 0.3:
        try:
            root = next((r for r in roots if r.kind in ("S", "A") and r.kind != "E"), None)
            kern = {}
            if root is not None and rng.random() < 0.6:
                kern = root.cls._gen_kernels()
            srcs = []
            xc = list(root_classes)
            if root is not None and twin is None and rng.random() < 0.35:
                # a kernel that mentions a class only as its return type; the class is NOT passed in extra_classes
                ct = root.cls._c_type
                fnm = f"xv_as_{root.name}"
                srcs = [f"/*gpufun*/ {ct} {fnm}(/*gpuglmem*/ int8_t* b){{ return ({ct}) b; }}"]
                kern = dict(kern)
                kern[fnm] = xo.Kernel(c_name=fnm, args=[xo.Arg(xo.Int8, pointer=True, name="b")], ret=xo.Arg(root.cls))
                xc = [c_ for c_ in xc if c_ is not root.cls]
                w.count("kernels_returning_a_class_not_listed")
            ctx().add_kernels(sources=srcs, kernels=kern, extra_classes=xc, extra_compile_args=("-O0", "-w"), extra_link_args=())
            w.count("builds")
            if kern and root.kind == "A":
                nm = f"{root.name}_len"
                if nm in ctx().kernels and root.cls._size is not None:
                    obj = root.cls()
                    if int(ctx().kernels[nm](obj=obj)) != len(obj):
                        viol("built-accessor-wrong", nm)
                    w.count("kernels_built_and_called")
            elif kern:
                w.count("kernels_built_and_called")
        except Exception as e:
            viol(f"build-{type(e).__name__}", f"{str(e)[-1200:]}")
    # the set of classes is given by the kernels alone: several user kernels described without c_name, each naming one
    # root class as argument type, nothing in extra_classes ("kernels are built for any set of classes")
    if not seen and twin is None and rng.random() < 0.25:
        kroots, kn = [], set()
        for r in roots:
            if r.kind in ("S", "A", "U", "E") and hasattr(r.cls, "_gen_c_api") and r.name not in kn:
                kn.add(r.name)
                kroots.append(r)
        if kroots:
            kern, srcs = {}, []
            for j, r in enumerate(kroots):
                fnm = f"xv_k{next(_uid)}_{r.name}"
                srcs.append(f"/*gpukern*/ int64_t {fnm}({r.cls._c_type} o, int64_t x){{ return x + {j}; }}")
                kern[fnm] = xo.Kernel(args=[xo.Arg(r.cls, name="o"), xo.Arg(xo.Int64, name="x")], ret=xo.Arg(xo.Int64))
            try:
                got = {c.__name__ for c in classes_from_kernels(kern)}
                for r in kroots:
                    w.count("kernel_argument_classes_collected")
                    if r.name not in got:
                        viol("kernel-argument-class-not-collected", f"{r.name} not in {sorted(got)}")
                ctx().add_kernels(sources=srcs, kernels=kern, extra_classes=[], extra_compile_args=("-O0", "-w"), extra_link_args=())
                w.count("builds_from_kernel_arguments_only")
                for fnm in kern:
                    if fnm not in ctx().kernels:
                        viol("kernel-not-registered", fnm)
            except Exception as e:
                viol(f"kernel-only-build-{type(e).__name__}", f"{str(e)[-1200:]}")
    w.case([sorted(n.kind for n in nodes), sorted(len(n.deps) for n in nodes), sorted(r.kind for r in roots), dup],
           sample=info if rng.random() < 0.01 else None, nontrivial=len(want) >= 3)
