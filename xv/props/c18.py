"""C18 — hybrid objects mirror their buffer data; copy/move keep value and ownership."""
import numpy as np

import xobjects as xo
from xv import bufmon
from xv.model import Env, exc_kind
from xv.hybridgen import (gen_family, ValGenH, to_kwargs, compare_h, copy_model, has_ref, spec_sig)
from xv.props.common import ctxs, flush_contracts

ID = "C18"
LEVEL = "exploration"
N_QUICK, N_THOROUGH = 20000, 300000
T_QUICK, T_THOROUGH = 70, 1500
OPS = ["set-scalar", "set-string", "set-array", "set-array-element", "set-nested", "set-ref-same", "set-ref-other",
       "copy", "move", "move-refused-nested", "move-refused-refs", "write-through-shared", "ref-to-nested-part-then-rebind", "set-ref-null-then-same", "derive-extended-class"]
FLOORS = {"histories": 1500, "steps": 15000, "object_comparisons": 60000, "renamed_fields_compared": 5000,
          "growths": 300, "three_level_families": 300, "nested_copy_duplicated_referent": 40,
          "copy_duplicated_referent": 60}
FLOORS.update({"op:" + o: 250 for o in OPS})
FLOORS["op:ref-to-nested-part-then-rebind"] = 60
FLOORS["op:set-ref-null-then-same"] = 150
FLOORS["op:derive-extended-class"] = 150
FLOORS["families_with_limited_array_attributes"] = 300
FLOORS["forced_moves_of_objects_with_references"] = 100
FLOORS["refarr_steps"] = 2000
FLOORS["reference_changed_through_the_xobject"] = 150
FLOORS["refarr_attribute_checks"] = 5000
FLOORS["limited_array_attribute_assignments"] = 100
RULE = ("generated hybrid class families (2-3 levels: scalars, strings, numeric arrays of any shape, nested hybrids, "
        "references to hybrids, renamed fields) in two buffers; histories of <=20 steps over {set scalar/string/array/"
        "array element (also inside nested dressed parts), assign dressed object to a nested field (same/other buffer), "
        "assign to a reference field (same buffer: shares; other buffer: MemoryError), copy (same buffer/other buffer/"
        "other context), move, refused moves, writes through shared objects, forced growth}; after EVERY step every "
        "tracked object is compared three ways: Python attribute == _xobject field == model. distinct = (family shape, "
        "op sequence prefix).")
ASSUMPTIONS = ["after copy() a reference-to-hybrid attribute may be the bare xobject; it is read through whichever representation it has",
               "objects that were bound to a reference field are not moved afterwards (the statement does not say whether that is allowed)"]


class T:
    def __init__(self, i, spec, mv, obj, env, nested_of=None):
        self.i, self.spec, self.mv, self.obj, self.env, self.nested_of = i, spec, mv, obj, env, nested_of
        self.referenced = False
        self.dead = False


def subobjects(t):
    """(path of pynames, path of xonames, spec, model, handle) for t and its nested dressed parts."""
    out = []

    def rec(spec, mv, obj, pp, xp):
        out.append((pp, xp, spec, mv, obj))
        for xn, pn, kind, sub, dflt in spec["fields"]:
            if kind == "nested":
                try:
                    child = getattr(obj, pn)
                except Exception:
                    continue
                rec(sub, mv[xn], child, pp + [pn], xp + [xn])

    rec(t.spec, t.mv, t.obj, [], [])
    return out


def _refarr_case(w, rng):
    """Hybrid classes whose field is a reference to a NUMERIC ARRAY (xo.Ref[xo.Float64[:]]): the attribute denotes the
    referenced array object; binding an array of the same buffer shares it, plain data makes a new independent array,
    None nulls it; writes through the attribute and through the array's own handle are one thing."""
    from xv.typegen import SC, DT, _uid
    sn = rng.choice(["Float64", "Int64", "Int32", "Float32"])
    dt = DT[sn]
    A = SC[sn][:]
    ns = {"_xofields": {"k": xo.Int64, "arr": xo.Ref[SC[sn][:]], "b": xo.Float64[:]}}
    pn = "arr"
    if rng.random() < 0.4:
        ns["_rename"] = {"arr": "py_arr"}
        pn = "py_arr"
    H = type(f"HyRefArr{next(_uid)}", (xo.HybridClass,), ns)
    envA = Env(rng, ctx=ctxs()[0], neighbours=rng.choice([0, 2]), kind="numpy")
    envB = Env(rng, ctx=ctxs()[0], neighbours=0, kind="numpy")
    info = dict(kind="hybrid reference to a numeric array", item=sn, renamed=pn != "arr", A=envA.placement())
    hist, seen = [], set()
    ctr = [rng.randint(1, 50)]

    def viol(mech, msg):
        if mech not in seen:
            seen.add(mech)
            w.violation(mech, msg, dict(info, history=hist[-12:]))

    def fresh(n):
        ctr[0] += n
        return (np.arange(n) + ctr[0]).astype(dt)

    arrays = {}   # id -> [model ndarray, handle or None, env]
    holders = []  # [obj, model ref id or None]

    def new_array(env, n=None):
        m = fresh(rng.randint(1, 4) if n is None else n)
        i = len(arrays) + 1
        arrays[i] = [m, A(m.copy(), _buffer=env.buf), env]
        return i

    def check(step):
        for i, (m, h, env) in arrays.items():
            if h is None:
                continue
            got = h.to_nparray()
            w.count("refarr_array_checks")
            if got.shape != m.shape or got.tobytes() != m.tobytes():
                viol(f"after-{step}:array-object-changed", f"array #{i}: read {got.tolist()!r:.80}, model {m.tolist()!r:.80}")
        for hi, (obj, rid) in enumerate(holders):
            for view, got in (("py", getattr(obj, pn)), ("xo", obj._xobject.arr)):
                w.count("refarr_attribute_checks")
                if rid is None:
                    if got is not None:
                        viol(f"after-{step}:null-reference-reads-something|{view}", f"holder {hi}: {got!r:.60}")
                    continue
                if got is None:
                    viol(f"after-{step}:reference-reads-None|{view}", f"holder {hi} -> array #{rid}")
                    continue
                m, h, env = arrays[rid]
                a = np.asarray(got.to_nparray() if hasattr(got, "to_nparray") else got)
                if a.shape != m.shape or a.dtype != m.dtype or a.tobytes() != m.tobytes():
                    viol(f"after-{step}:referenced-array-differs|{view}", f"holder {hi} -> #{rid}: read {a.tolist()!r:.80}, model {m.tolist()!r:.80}")
                elif h is not None and hasattr(got, "_offset") and (got._buffer is not h._buffer or int(got._offset) != int(h._offset)):
                    viol(f"after-{step}:reference-does-not-denote-the-bound-array|{view}", f"holder {hi}: at {int(got._offset)}, array #{rid} lives at {int(h._offset)}")

    try:
        try:
            for _ in range(rng.randint(1, 2)):
                env = rng.choice([envA, envA, envB])
                rid = new_array(env) if rng.random() < 0.6 else None
                obj = H(k=len(holders), b=[1.0, 2.0], _buffer=env.buf, **{pn: arrays[rid][1] if rid else None})
                holders.append([obj, rid])
            hist.append(["construct", len(holders)])
            check("construct")
            for _ in range(rng.randint(4, 14)):
                if seen:
                    break
                hd = rng.choice(holders)
                obj, rid = hd
                env = envA if obj._buffer is envA.buf else envB
                op = rng.choice(["bind-existing", "bind-value", "bind-null", "write-through-attribute", "write-through-array", "grow", "bind-same-length"])
                if op == "grow":
                    w.count("growths", env.force_growth())
                elif op == "bind-null":
                    setattr(obj, pn, None)
                    hd[1] = None
                elif op in ("bind-existing", "bind-same-length"):
                    n = arrays[rid][0].size if (rid and op == "bind-same-length") else None
                    cand = [i for i, (m, h, e) in arrays.items() if h is not None and e is env and i != rid and (n is None or m.size == n)]
                    i = rng.choice(cand) if cand and rng.random() < 0.6 else new_array(env, n)
                    setattr(obj, pn, arrays[i][1])
                    hd[1] = i
                elif op == "bind-value":
                    n = arrays[rid][0].size if (rid and rng.random() < 0.6) else rng.randint(1, 4)
                    m = fresh(n)
                    setattr(obj, pn, m.tolist() if rng.random() < 0.5 else m.copy())
                    i = len(arrays) + 1
                    arrays[i] = [m, None, env]   # no handle of its own: reached through the holder only
                    hd[1] = i
                elif rid is None:
                    continue
                elif op == "write-through-attribute":
                    m = arrays[rid][0]
                    j = rng.randrange(m.size)
                    v = fresh(1)[0]
                    getattr(obj, pn)[j] = v.item()
                    m[j] = v
                else:
                    m, h, _e = arrays[rid]
                    if h is None:
                        continue
                    j = rng.randrange(m.size)
                    v = fresh(1)[0]
                    h[j] = v.item()
                    m[j] = v
                hist.append([op, f"holder {holders.index(hd)}", f"-> #{hd[1]}"])
                w.count("refarr_steps")
                w.count("refarr:" + op)
                for e in (envA, envB):
                    e.repoison()
                check(op)
        except Exception as e:
            viol(f"refarr-{exc_kind(e)}", f"{type(e).__name__}: {e}")
        w.case(["refarr", sn, pn != "arr", [h_[0] for h_ in hist[:8]]], nontrivial=True)
    finally:
        envA.close()
        envB.close()
        flush_contracts(w, info)


def run_case(w, rng):
    if rng.random() < 0.06:
        return _refarr_case(w, rng)
    levels = rng.choice([1, 1, 2])
    specs, outer = gen_family(rng, levels=levels, defaults=rng.random() < 0.4, lim_p=0.2, force_p=0.25)
    if any("lim" in s_ for s_ in specs):
        w.count("families_with_limited_array_attributes")
    if levels == 2:
        w.count("three_level_families")
    vg = ValGenH(rng)
    envA = Env(rng, ctx=ctxs()[0], neighbours=rng.choice([0, 2]), kind="numpy")
    envB = Env(rng, ctx=rng.choice(ctxs()), neighbours=0, kind="numpy")
    envs = [envA, envB]
    info = dict(family=[(s["name"], spec_sig(s)) for s in specs], A=envA.placement(), B=envB.placement())
    tracked = {}
    hist = []
    seen = set()
    state = dict(n=0, bad=False)

    def viol(mech, msg):
        state["bad"] = True
        if mech not in seen:
            seen.add(mech)
            w.violation(mech, msg, dict(info, history=hist[-12:]))

    def new_obj(spec, env, mv=None, buf=None):
        mv = mv or vg.value(spec)
        obj = spec["cls"](**to_kwargs(spec, mv, rng, _buffer=buf if buf is not None else env.buf))
        state["n"] = max(list(tracked) + [0]) + 1
        t = T(state["n"], spec, mv, obj, env)
        tracked[t.i] = t
        return t

    def resolve(i):
        t = tracked[i]
        return t.spec, t.mv

    def check_all():
        for t in tracked.values():
            if t.dead or t.obj is None:
                continue
            errs = compare_h(t.spec, t.mv, t.obj, resolve)
            w.count("object_comparisons")
            w.count("renamed_fields_compared", sum(1 for f in t.spec["fields"] if f[0] != f[1]))
            for p, kind, detail in errs[:2]:
                viol(f"after-{hist[-1][0]}:{kind}|{'py' if '(py)' in p else 'xo'}", f"object #{t.i} ({t.spec['name']}) {p}: {detail}")
        for e in envs:
            if e.neighbours_intact():
                viol(f"after-{hist[-1][0]}:stamped-neighbour-damaged", "")

    ops_done = []
    try:
        w.count("histories")
        try:
            for _ in range(rng.randint(1, 3)):
                new_obj(outer, rng.choice(envs))
            new_obj(specs[0], envA)
        except Exception as e:
            w.violation(f"construct-{exc_kind(e)}", f"{type(e).__name__}: {e}", info)
            return
        hist.append(["construct", len(tracked)])
        check_all()
        for step in range(rng.randint(4, 20)):
            if state["bad"]:
                break
            op = rng.choice(OPS + ["grow"])
            try:
                done = _step(w, rng, vg, op, tracked, envs, specs, outer, new_obj, hist, viol)
            except Exception as e:
                viol(f"{op}-{exc_kind(e)}", f"{type(e).__name__}: {e}")
                break
            if not done:
                continue
            w.count("steps")
            if op != "grow":
                w.count("op:" + op)
            ops_done.append(op[:5])
            for e in envs:
                e.repoison()
            check_all()
        w.case([[spec_sig(s) for s in specs], ops_done[:8]], sample=dict(info, history=hist[:10]) if rng.random() < 0.004 else None,
               nontrivial=len(ops_done) >= 3)
    finally:
        envA.close()
        envB.close()
        flush_contracts(w, info)


def _pick_sub(rng, tracked, pred):
    cands = []
    for t in tracked.values():
        if t.dead or t.obj is None:
            continue
        for pp, xp, spec, mv, obj in subobjects(t):
            if pred(spec):
                cands.append((t, pp, xp, spec, mv, obj))
    return rng.choice(cands) if cands else None


def _set_model(t, xp, xn, val):
    mv = t.mv
    for x in xp:
        mv = mv[x]
    mv[xn] = val


def _dup_refs(w, tracked, nt, counter):
    """Model of an object that was rebuilt in another buffer: every reference in it (and in its nested parts and in
    the duplicates themselves) now denotes a duplicate of the former referent."""
    def dup(spec, mv):
        for xn, pn, kind, sub, _dd in spec["fields"]:
            if kind == "nested":
                dup(sub, mv[xn])
            elif kind == "ref" and mv[xn] is not None:
                o = tracked[mv[xn]]
                k = max(tracked) + 1
                m2 = copy_model(sub, o.mv)
                tracked[k] = T(k, sub, m2, None, nt.env)
                dup(sub, m2)
                mv[xn] = k
                w.count(counter)
    dup(nt.spec, nt.mv)


def _step(w, rng, vg, op, tracked, envs, specs, outer, new_obj, hist, viol):
    def fields_of(spec, kind):
        return [f for f in spec["fields"] if f[2] == kind]

    if op == "grow":
        e = rng.choice(envs)
        w.count("growths", e.force_growth())
        hist.append(["grow", e.buf.capacity])
        return True
    if op in ("set-scalar", "set-string", "set-array", "set-array-element"):
        kind = {"set-scalar": "sc", "set-string": "str"}.get(op, "arr")
        pick = _pick_sub(rng, tracked, lambda s: bool(fields_of(s, kind)))
        if pick is None:
            return False
        t, pp, xp, spec, mv, obj = pick
        xn, pn, _, sub, _d = rng.choice(fields_of(spec, kind))
        if kind == "sc":
            v = vg.scalar(sub)
            setattr(obj, pn, v.item() if rng.random() < 0.5 else v)
        elif kind == "str":
            v = vg.string(len(mv[xn]))
            setattr(obj, pn, v)
        elif op == "set-array":
            v = vg.array(sub[0], sub[1], mv[xn].shape)
            lim = spec.get("lim")
            if lim is not None:
                # only the exposed part is assigned (and changes)
                full = mv[xn].copy()
                full[:lim] = v[:lim]
                v = v[:lim]
            setattr(obj, pn, v.copy() if rng.random() < 0.5 else (v.tolist() if 0 not in v.shape else v.copy()))
            if lim is not None:
                v = full
                w.count("limited_array_attribute_assignments")
        else:
            lim = spec.get("lim")
            exposed = mv[xn] if lim is None else mv[xn][:lim]
            if exposed.size == 0:
                return False
            v = mv[xn].copy()
            idx = tuple(rng.randrange(s) for s in exposed.shape)
            v[idx] = vg.scalar(sub[0])
            getattr(obj, pn)[idx] = v[idx]
        _set_model(t, xp, xn, v)
        hist.append([op, f"#{t.i}." + ".".join(pp + [pn])])
        return True
    if op == "derive-extended-class":
        # a class derived from the class of a live object by re-using the parent's fields dictionary and adding fields;
        # an object of the derived class and a new object of the parent class are created; the objects of the parent
        # class that exist already (and the new one) must go on mirroring their own buffer data
        from xv.hybridgen import make_extension
        live = [t for t in tracked.values() if not t.dead and t.obj is not None and "parent" not in t.spec]
        if not live:
            return False
        t = rng.choice(live)
        ext = make_extension(rng, t.spec)
        env = rng.choice(envs)
        e = new_obj(ext, env)
        p2 = new_obj(t.spec, env)
        hist.append([op, ext["name"], f"#{e.i}", f"new parent object #{p2.i}"])
        return True
    if op == "set-nested":
        pick = _pick_sub(rng, tracked, lambda s: bool(fields_of(s, "nested")))
        if pick is None:
            return False
        t, pp, xp, spec, mv, obj = pick
        xn, pn, _, sub, _d = rng.choice(fields_of(spec, "nested"))
        src = new_obj(sub, rng.choice(envs), vg.value(sub, like=mv[xn]))
        # sometimes the assigned object already holds (dressed) references of its own
        for rxn, rpn, _k, rsub, _dd in fields_of(sub, "ref"):
            if rng.random() < 0.6:
                rt = new_obj(rsub, src.env, buf=src.obj._buffer)
                setattr(src.obj, rpn, rt.obj)
                rt.referenced = True
                src.mv[rxn] = rt.i
        setattr(obj, pn, src.obj)
        newmv = copy_model(sub, src.mv)
        if src.obj._buffer is not obj._buffer:
            # stored copy lives in another buffer: its references denote duplicates of the referents
            for rxn, rpn, _k, rsub, _dd in fields_of(sub, "ref"):
                if newmv[rxn] is not None:
                    o = tracked[newmv[rxn]]
                    n = max(tracked) + 1
                    tracked[n] = T(n, rsub, copy_model(rsub, o.mv), None, t.env)
                    newmv[rxn] = n
                    w.count("nested_copy_duplicated_referent")
        _set_model(t, xp, xn, newmv)
        hist.append([op, f"#{t.i}." + ".".join(pp + [pn]), f"<- copy of #{src.i}"])
        return True
    if op in ("set-ref-same", "set-ref-other"):
        pick = _pick_sub(rng, tracked, lambda s: bool(fields_of(s, "ref")))
        if pick is None:
            return False
        t, pp, xp, spec, mv, obj = pick
        xn, pn, _, sub, _d = rng.choice(fields_of(spec, "ref"))
        same = op == "set-ref-same"
        if same:
            cand = [x for x in tracked.values() if x.spec is sub and not x.dead and x.obj is not None and x.obj._buffer is obj._buffer]
            tgt = rng.choice(cand) if cand and rng.random() < 0.6 else new_obj(sub, t.env, buf=obj._buffer)
        else:
            env = [e for e in envs if e.buf is not obj._buffer][0]
            cand = [x for x in tracked.values() if x.spec is sub and not x.dead and x.obj is not None and x.obj._buffer is env.buf]
            tgt = rng.choice(cand) if cand and rng.random() < 0.6 else new_obj(sub, env)
        if same:
            setattr(obj, pn, tgt.obj)
            tgt.referenced = True
            _set_model(t, xp, xn, tgt.i)
            hist.append([op, f"#{t.i}." + ".".join(pp + [pn]), f"-> #{tgt.i}"])
        else:
            hist.append([op, f"#{t.i}." + ".".join(pp + [pn]), f"-> #{tgt.i} (other buffer)"])
            try:
                setattr(obj, pn, tgt.obj)
                viol("cross-buffer-reference-accepted", "assigning an object of another buffer to a reference field did not raise")
            except MemoryError:
                pass
        return True
    if op == "set-ref-null-then-same":
        # X, then null (None or a bare xobject of another target), then X again: the buffer must follow each time
        pick = _pick_sub(rng, tracked, lambda s: bool(fields_of(s, "ref")))
        if pick is None:
            return False
        t, pp, xp, spec, mv, obj = pick
        xn, pn, _, sub, _d = rng.choice(fields_of(spec, "ref"))
        cand = [x for x in tracked.values() if x.spec is sub and not x.dead and x.obj is not None and x.obj._buffer is obj._buffer]
        X = rng.choice(cand) if cand and rng.random() < 0.5 else new_obj(sub, t.env, buf=obj._buffer)
        setattr(obj, pn, X.obj)
        X.referenced = True
        r_ = rng.random()
        if r_ < 0.25:
            # the reference is changed at the level of the buffer data (what a kernel or a direct write through the
            # xobject does); only what happens when X is assigned AGAIN is judged: the buffer must then refer to X
            other = None
            if rng.random() < 0.5:
                setattr(obj._xobject, xn, None)
                mid = "null written through the xobject"
            else:
                other = new_obj(sub, t.env, buf=obj._buffer)
                setattr(obj._xobject, xn, other.obj._xobject)
                other.referenced = True
                mid = f"#{other.i} written through the xobject"
            w.count("reference_changed_through_the_xobject")
            setattr(obj, pn, X.obj)
            _set_model(t, xp, xn, X.i)
            xr = getattr(obj._xobject, xn)
            if xr is None or int(xr._offset) != int(X.obj._xobject._offset):
                viol("reference-in-buffer-does-not-follow-reassignment", f"{pn}: X, {mid}, X again -> buffer refers to {xr!r}")
            hist.append([op, f"#{t.i}." + ".".join(pp + [pn]), f"#{X.i}, {mid}, #{X.i}"])
            return True
        if r_ < 0.6:
            setattr(obj, pn, None)
            mid = "None"
        else:
            other = new_obj(sub, t.env, buf=obj._buffer)
            setattr(obj, pn, other.obj._xobject)  # the bare xobject of another target
            other.referenced = True
            mid = f"bare xobject of #{other.i}"
        xr = getattr(obj._xobject, xn)
        if mid == "None" and xr is not None:
            viol("reference-not-nulled-in-buffer", f"{pn}")
        # the attribute reflects the buffer data at this point too (null, or the other target: dressed or bare)
        pa = getattr(obj, pn)
        w.count("attribute_checked_after_reference_set_without_dressed_object")
        if mid == "None":
            if pa is not None:
                viol("attribute-still-denotes-old-target-after-reference-was-nulled", f"{pn}: buffer holds a null reference, the attribute reads {pa!r}")
        else:
            px = getattr(pa, "_xobject", pa)
            if px is None or int(px._offset) != int(other.obj._xobject._offset):
                viol("attribute-still-denotes-old-target-after-reference-was-rebound", f"{pn}: buffer refers to #{other.i}, the attribute reads {pa!r}")
        setattr(obj, pn, X.obj)
        _set_model(t, xp, xn, X.i)
        xr = getattr(obj._xobject, xn)
        if xr is None or int(xr._offset) != int(X.obj._xobject._offset):
            viol("reference-in-buffer-does-not-follow-reassignment", f"{pn}: X, {mid}, X again -> buffer refers to {xr!r}")
        hist.append([op, f"#{t.i}." + ".".join(pp + [pn]), f"#{X.i}, {mid}, #{X.i}"])
        return True
    if op == "ref-to-nested-part-then-rebind":
        # a nested part of one object becomes, for a while, the target of a reference field of another object; when
        # the reference is bound to something else again the part is still nested: it must stay unmovable
        pick = _pick_sub(rng, tracked, lambda s: bool(fields_of(s, "ref")))
        if pick is None:
            return False
        t, pp, xp, spec, mv, obj = pick
        xn, pn, _, sub, _d = rng.choice(fields_of(spec, "ref"))
        parts = []
        for t2 in tracked.values():
            if t2.dead or t2.obj is None:
                continue
            for pp2, xp2, spec2, mv2, obj2 in subobjects(t2):
                if pp2 and spec2 is sub and obj2._buffer is obj._buffer and obj2 is not obj and not spec2.get("force_moveable"):
                    parts.append((t2, pp2, mv2, obj2))
        if not parts:
            return False
        t2, pp2, mv2, part = rng.choice(parts)
        setattr(obj, pn, part)
        got = getattr(obj, pn)
        errs = compare_h(sub, mv2, got, lambda i: (tracked[i].spec, tracked[i].mv)) if got is not None else [("", "value|ref", "None")]
        for p_, kind, detail in errs[:1]:
            viol(f"reference-to-nested-part:{kind}", f"{p_}: {detail}")
        tgt = new_obj(sub, t.env, buf=obj._buffer)
        setattr(obj, pn, tgt.obj)
        tgt.referenced = True
        _set_model(t, xp, xn, tgt.i)
        env = [e for e in envs if e.buf is not part._buffer][0]
        hist.append([op, f"#{t.i}." + ".".join(pp + [pn]), f"-> part {'.'.join(pp2)} of #{t2.i}, then -> #{tgt.i}"])
        try:
            part.move(_buffer=env.buf)
            viol("move-of-nested-object-accepted-after-it-was-a-reference-target", ".".join(pp2))
        except MemoryError:
            pass
        return True
    if op == "write-through-shared":
        cand = [x for x in tracked.values() if x.referenced and not x.dead and x.obj is not None and [f for f in x.spec["fields"] if f[2] == "sc"]]
        if not cand:
            return False
        tgt = rng.choice(cand)
        xn, pn, _, sub, _d = rng.choice([f for f in tgt.spec["fields"] if f[2] == "sc"])
        v = vg.scalar(sub)
        holders = []
        for t in tracked.values():
            if t.dead or t.obj is None:
                continue
            for pp, xp, spec, mv, obj in subobjects(t):
                for f in spec["fields"]:
                    if f[2] == "ref" and mv[f[0]] == tgt.i:
                        holders.append((obj, f[1]))
        if holders and rng.random() < 0.5:
            obj, rpn = rng.choice(holders)
            ref = getattr(obj, rpn)
            setattr(ref, pn if hasattr(ref, "_xobject") else xn, v.item())
            how = "via reference"
        else:
            setattr(tgt.obj, pn, v.item())
            how = "via original"
        tgt.mv[xn] = v
        hist.append([op, f"#{tgt.i}.{pn}", how])
        return True
    if op == "copy":
        cand = [x for x in tracked.values() if not x.dead and x.obj is not None]
        t = rng.choice(cand)
        dest = rng.choice(["same", "buffer", "context"])
        if dest == "same":
            c = t.obj.copy(_buffer=t.obj._buffer)
            env = None
        elif dest == "context" and rng.random() < 0.5:
            c = t.obj.copy()  # a new buffer in the object's own context
            env = None
        elif dest == "buffer":
            env = [e for e in envs if e is not t.env][0]
            c = t.obj.copy(_buffer=env.buf)
        else:
            c = t.obj.copy(_context=ctxs()[1])
            env = None
        n = max(tracked) + 1
        nt = T(n, t.spec, copy_model(t.spec, t.mv), c, env or t.env)
        tracked[n] = nt
        if c._buffer is not t.obj._buffer and has_ref(t.spec):
            # the copy lives in another buffer: each of its references denotes a duplicate of the referent there
            _dup_refs(w, tracked, nt, "copy_duplicated_referent")
            for pp, xp, spec, mv, obj in subobjects(nt):
                for xn, pn, kind, sub, _dd in spec["fields"]:
                    if kind == "ref" and mv[xn] is not None:
                        ref = getattr(obj, pn)
                        if ref is not None and ref._buffer is not c._buffer:
                            viol("reference-of-copy-resolves-outside-its-buffer", f"{'.'.join(pp + [pn])} of the copy ({dest})")
        if env is not None and c._buffer is not env.buf:
            viol("copy-in-wrong-buffer", f"copy({dest})")
        if int(c._offset) == int(t.obj._offset) and c._buffer is t.obj._buffer:
            viol("copy-is-the-same-object", "")
        hist.append([op, f"#{t.i} -> #{n}", dest])
        return True
    if op == "move":
        cand = [x for x in tracked.values() if not x.dead and x.obj is not None and x.nested_of is None and not x.referenced
                and (not has_ref(x.spec) or x.spec.get("force_moveable"))]
        if not cand:
            return False
        forced = [x for x in cand if has_ref(x.spec)]
        t = rng.choice(forced) if forced and rng.random() < 0.6 else rng.choice(cand)
        env = [e for e in envs if e is not t.env][0]
        old_buf = t.obj._buffer
        if rng.random() < 0.7:
            t.obj.move(_buffer=env.buf)
            if t.obj._buffer is not env.buf:
                viol("move-did-not-relocate", "object is not in the target buffer")
        else:
            t.obj.move(_context=env.ctx)
            if t.obj._buffer.context is not env.ctx:
                viol("move-did-not-relocate", "object is not in the target context")
            env = None
        for pp, xp, spec, mv, obj in subobjects(t):
            if pp and (obj._buffer is not t.obj._buffer):
                viol("move-left-nested-part-behind", f"nested part {'.'.join(pp)} lives in another buffer")
        if env is not None:
            t.env = env
        if has_ref(t.spec):
            # a class that declares _force_moveable: the object is rebuilt in the other buffer like a copy, its
            # references denote duplicates there; the attributes must go on mirroring the (new) buffer data
            w.count("forced_moves_of_objects_with_references")
            if t.obj._buffer is not old_buf:
                _dup_refs(w, tracked, t, "forced_move_duplicated_referent")
            for pp, xp, spec, mv, obj in subobjects(t):
                for xn, pn, kind, sub, _dd in spec["fields"]:
                    if kind == "ref" and mv[xn] is not None:
                        ref = getattr(obj, pn)
                        if ref is not None and ref._buffer is not t.obj._buffer:
                            viol("reference-of-moved-object-resolves-outside-its-buffer", f"{'.'.join(pp + [pn])}")
        hist.append([op, f"#{t.i}", "forced" if has_ref(t.spec) else ""])
        return True
    if op == "move-refused-nested":
        pick = _pick_sub(rng, tracked, lambda s: True)
        cands = []
        for t in tracked.values():
            if t.dead or t.obj is None:
                continue
            for pp, xp, spec, mv, obj in subobjects(t):
                if pp and not spec.get("force_moveable"):
                    cands.append((t, pp, obj))
        if not cands:
            return False
        t, pp, obj = rng.choice(cands)
        env = [e for e in envs if e is not t.env][0]
        hist.append([op, f"#{t.i}." + ".".join(pp)])
        try:
            obj.move(_buffer=env.buf)
            viol("move-of-nested-object-accepted", ".".join(pp))
        except MemoryError:
            pass
        return True
    if op == "move-refused-refs":
        cand = [x for x in tracked.values() if not x.dead and x.obj is not None and has_ref(x.spec) and
                any(f[2] == "ref" for f in x.spec["fields"]) and not x.spec.get("force_moveable")]
        if not cand:
            return False
        t = rng.choice(cand)
        env = [e for e in envs if e is not t.env][0]
        hist.append([op, f"#{t.i}"])
        try:
            t.obj.move(_buffer=env.buf)
            viol("move-of-reference-holding-object-accepted", "")
        except MemoryError:
            pass
        return True
    return False
