"""C02 — generated C accessors address the same bytes as the Python view."""
import os
import tempfile

import numpy as np

from xv import bufmon
from xv.typegen import kinds_in, shape_sig, walk
from xv.model import exc_kind, compare
from xv.charness import (InProc, plan_calls, c_result_equal, class_source_for, script_for, expected_text,
                         standalone_source, build_and_run, sanitizer_reports)
from xv.props.common import new_case, build_root, flush_contracts

ID = "C02"
LEVEL = "exploration"
N_QUICK, N_THOROUGH = 2400, 60000
T_QUICK, T_THOROUGH = 75, 1500
FLOORS = {"types_compiled": 300, "calls_compared": 5000, "kind:get": 2000, "kind:getp": 3000, "kind:len": 1000,
          "kind:typeid": 100, "kind:member": 100, "nonzero_offset_objects": 300, "standalone_runs": 30,
          "seen:ar2doD": 3, "seen:ar1dD": 30, "seen:ref": 50, "paths_through_refs": 500,
          "dynitem_array_not_outermost": 100, "growths_between_calls": 100,
          "header_cases": 100, "perturbed_header_addresses": 1500}
RULE = ("random type AST rooted at struct/array/unionref (depth<=3, all item kinds incl. arrays of dynamic items nested "
        "in structs and arrays, refs forwards/backwards) x value; object never at offset 0, neighbours around; every "
        "generated accessor of every access path (get, getp[n], len[n], typeid, member) called through the real "
        "ContextCpu/cffi path for all in-range index tuples (<=6 per array level, <=400 per object) and compared with "
        "what the Python accessors report (value, element address relative to the buffer base, length, member index, "
        "member address); a sample also runs in a stand-alone ASan/UBSan build. distinct = name-erased AST.")
ASSUMPTIONS = ["paths that cross a null reference are not called (outside 'well-formed object, in-range indices')",
               "the symbolic 'for all indices and header contents at once' clause is decided only observationally"]

_ip = None
_tmp = None


def setup(w):
    global _ip, _tmp
    _ip = InProc()
    _tmp = tempfile.mkdtemp(prefix="xvc02_")


def teardown(w):
    import shutil

    shutil.rmtree(_tmp, ignore_errors=True)


def run_case(w, rng):
    if rng.random() < 0.12:
        return run_header_case(w, rng)
    c = new_case(w, rng, roots=("st", "st", "ar", "ar", "ur"), depth=rng.choice([1, 2, 2, 3]),
                 env_kw=dict(al=rng.choice([8, 8, 16, 1, 4]), neighbours=rng.choice([1, 2, 3])),
                 modes=(None, "aligned", "packed"), vg_kw=dict(max_dyn=3, nulls=0.2))
    t, env = c.t, c.env
    seen = set()

    def viol(mech, msg):
        if mech not in seen:
            seen.add(mech)
            w.violation(mech, msg, c.info)

    try:
        env.buf.allocate(rng.choice([8, 24, 40]))  # padding object: the object under test is never at offset 0
        env.repoison()
        try:
            h = build_root(c, rng)
            env.add_neighbour()
        except Exception as e:
            w.violation(f"construct-{exc_kind(e)}", f"{type(e).__name__}: {e}", c.info)
            return
        try:
            _ip.compile(c.cls)
        except Exception as e:
            viol(f"compile-{type(e).__name__}", f"{str(e)[-1500:]}")
            return
        w.count("types_compiled")
        if int(h._offset) != 0:
            w.count("nonzero_offset_objects")
        for kk in kinds_in(t):
            w.seen(kk)
        for n in walk(t):
            if n["k"] == "ar" and n["it"]["k"] in ("str", "st", "ar") and n is not t:
                from xv.typegen import is_static
                if not is_static(n["it"]):
                    w.count("dynitem_array_not_outermost")
                    break
        calls = plan_calls(t, h, c.mv, rng=rng)
        if len(calls) > 400:
            calls = calls[:400]
        kernels = _ip.ctx.kernels
        for cl in calls:
            if cl.kind == "set":
                continue
            if cl.name not in kernels:
                viol("accessor-missing", f"{cl.name} not generated for {cl.label}")
                continue
            if rng.random() < 0.02:
                # storage replaced between two kernel calls: offsets stay, addresses do not
                w.count("growths_between_calls", env.force_growth())
            try:
                got = _ip.call(h, cl)
            except Exception as e:
                viol(f"call-{type(e).__name__}|{cl.kind}", f"{cl.name}{cl.idx}: {e}")
                continue
            w.count("calls_compared")
            w.count("kind:" + cl.kind)
            if "->" in cl.label:
                w.count("paths_through_refs")
            if not c_result_equal(cl, got):
                viol(f"c-differs-from-python|{cl.kind}", f"{cl.name}{cl.idx} at {cl.label}: C returned {got!r}, Python reports {cl.expect!r}")
        # a sample in the stand-alone sanitizer build (objects at 8-aligned offsets only)
        if rng.random() < 0.12 and int(h._offset) % 8 == 0 and env.al >= 8:
            _standalone(w, c, h, [cl for cl in calls if cl.kind != "set"], viol)
        w.case(shape_sig(t), sample=dict(c.info, calls=[repr(x) for x in calls[:12]]) if rng.random() < 0.01 else None,
               nontrivial=len(calls) >= 4)
    finally:
        env.close()
        flush_contracts(w, c.info)


def _standalone(w, c, h, calls, viol):
    hwm = max([hi for lo, hi in c.env.fol.sh.live_intervals()] + [0])
    image = bufmon.raw_bytes(c.env.buf)[:hwm]
    lines, expect = script_for(calls, {})
    src = standalone_source(class_source_for(c.cls), c.cls._c_type, int(h._offset), lines)
    r = build_and_run(src, image, _tmp, f"t{os.getpid()}")
    if r["compile_err"] is not None:
        viol("standalone-compile-error", r["compile_err"][-800:])
        return
    w.count("standalone_runs")
    n = sanitizer_reports(r["err"])
    if n or r["rc"] != 0:
        viol("sanitizer-report", f"rc={r['rc']} reports={n}: {r['err'][-1200:]}")
        return
    want = expected_text(expect, image)
    if r["out"] != want:
        for i, (a, b) in enumerate(zip(r["out"], want)):
            if a != b:
                viol(f"standalone-differs|{calls[i].kind if i < len(calls) else 'end'}",
                     f"{calls[i] if i < len(calls) else ''}: C printed {a!r}, expected {b!r}")
                break
        else:
            viol("standalone-differs|length", f"{len(r['out'])} lines vs {len(want)}")


# --------------------------------------------------------------------------
# "for all header contents": the emitted address arithmetic must follow the strides STORED in the object
# --------------------------------------------------------------------------
def run_header_case(w, rng):
    """A multi-dimensional array with a dynamic dimension keeps its strides in its header.  The stored strides are
    overwritten with other values (directly in native storage) and every element address returned by the C
    accessor must equal the documented expression  array + data offset + sum(index_k * stored stride_k),  which is
    also what a fresh Python view reports."""
    import struct as _st
    from xv.typegen import TypeGen, ValGen, build, plain, DT
    from xv.model import Env
    from xv.props.common import ctxs

    tg = TypeGen(rng)
    nd = rng.choice([2, 2, 3])
    dims = [rng.choice([None, 2, 3]) for _ in range(nd)]
    if None not in dims:
        dims[rng.randrange(nd)] = None
    order = list(range(nd))
    if rng.random() < 0.6:
        rng.shuffle(order)
    sc = tg.scalar()
    ta = {"k": "ar", "n": tg.name("A"), "it": sc, "dims": dims, "ord": order}
    wrapped = rng.random() < 0.6
    if wrapped:
        fs = [["k", {"k": "sc", "t": "Int64"}]]
        if rng.random() < 0.5:
            fs.append(["s", {"k": "str"}])
        fs.append(["a", ta])
        if rng.random() < 0.5:
            fs.append(["z", {"k": "ar", "n": tg.name("Z"), "it": {"k": "sc", "t": "Int32"}, "dims": [None], "ord": [0]}])
        t = {"k": "st", "n": tg.name("S"), "f": fs}
    else:
        t = ta
    cache = {}
    cls = build(t, cache)
    vg = ValGen(rng, max_dyn=3, zero_dims=0.0)
    mv = vg.value(t)
    env = Env(rng, ctx=ctxs()[0], al=rng.choice([8, 16, 1]), neighbours=rng.choice([1, 2]))
    info = dict(type=t, header_case=True, placement=env.placement())
    seen = set()

    def viol(mech, msg):
        if mech not in seen:
            seen.add(mech)
            w.violation(mech, msg, info)

    try:
        env.buf.allocate(rng.choice([8, 24, 40]))
        try:
            h = cls(plain(t, mv, rng), _buffer=env.buf)
            env.add_neighbour(200)  # room behind the object: perturbed addresses are only computed, never dereferenced
            _ip.compile(cls)
        except Exception as e:
            viol(f"header-case-setup-{type(e).__name__}", f"{str(e)[-800:]}")
            return
        arr = h.a if wrapped else h
        amv = mv["a"] if wrapped else mv
        A = int(arr._offset)
        ndyn = sum(1 for d in dims if d is None)
        hdr = A + 8 + 8 * ndyn
        data_off = 8 + 8 * ndyn + 8 * nd
        isz = DT[sc["t"]].itemsize
        raw = bufmon.raw_bytes(env.buf)
        stored = list(_st.unpack_from(f"<{nd}q", raw, hdr))
        if stored != [int(x) for x in arr._strides]:
            viol("stored-strides-not-where-documented", f"header words {stored}, python strides {tuple(arr._strides)}")
            return
        calls = [cl for cl in plan_calls(t, h, mv, rng=rng) if cl.kind == "getp" and cl.leaf_t is not None
                 and len(cl.idx) == nd]
        w.count("header_cases")
        for trial in range(3):
            new = [isz * rng.randint(1, 7) for _ in range(nd)]
            bufmon.poke(env.buf, hdr, _st.pack(f"<{nd}q", *new))
            view = type(arr)._from_buffer(env.buf, A)
            for cl in calls:
                idx = tuple(cl.idx)
                want = A + data_off + sum(i * s_ for i, s_ in zip(idx, new))
                try:
                    got = _ip.call(h, cl)
                except Exception as e:
                    viol(f"call-{type(e).__name__}|getp|perturbed-header", f"{cl.name}{cl.idx}: {e}")
                    break
                w.count("perturbed_header_addresses")
                if int(got) != want:
                    viol("c-address-ignores-stored-strides", f"{cl.name}{list(idx)} with stored strides {new} (created with {stored}): "
                         f"C returned {got}, documented expression gives {want}")
                    break
                pv = int(view._get_offset(idx))
                if pv != want:
                    viol("python-view-ignores-stored-strides", f"index {idx} strides {new}: python {pv}, documented {want}")
                    break
            if seen:
                break
        w.case(["header", dims, order, sc["t"], wrapped], sample=info if rng.random() < 0.02 else None)
    finally:
        env.close()
        flush_contracts(w, info)
