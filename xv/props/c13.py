"""C13 — CPU buffer copy primitives move exactly the requested bytes.

Workload: small-scope *exhaustive* enumeration (both buffer kinds x capacity
0..CAPMAX x every in-range (offset, length[, source offset]) x every primitive x
10 dtypes x source layouts).  Oracle: the icontract contracts installed by
xv.bufmon (byte-exact pre/post conditions with whole-buffer snapshots), plus
explicit independence / aliasing checks on the extracted objects.
"""
import numpy as np

import xobjects as xo
from xv import bufmon

bufmon.install()
bufmon.install_contracts()

ID = "C13"
LEVEL = "exploration"
EXHAUSTIVE = True
KINDS = ("numpy", "bytearray")
GROUPS = ("from_buffer", "from_native", "copy_to_native", "extract", "views", "from_nplike", "xbuffer_scalar", "grow_storage", "large_transfers", "nplike_sequences")
CAPMAX_Q, CAPMAX_T = 12, 20
N_QUICK = len(KINDS) * (CAPMAX_Q + 1) * len(GROUPS)
N_THOROUGH = len(KINDS) * (CAPMAX_T + 1) * len(GROUPS)
T_QUICK, T_THOROUGH = 70, 900
SHARDS = 16
DTYPES = ["int8", "uint8", "int16", "uint16", "int32", "uint32", "int64", "uint64", "float32", "float64"]
SCALARS = [xo.Int8, xo.UInt8, xo.Int16, xo.UInt16, xo.Int32, xo.UInt32, xo.Int64, xo.UInt64, xo.Float32, xo.Float64]
FLOORS = {"primitive_calls": 30000, "grow_relocations": 3000, "large_transfers": 60, "views_after_growth": 1500,
          "nplike_swapped_sources": 2000, "overlapping_self_copies": 300, "nplike_calls_on_reused_buffer": 500}
for _k in KINDS:
    for _p in ("update_from_buffer.post_exact", "update_from_native.post_exact", "update_from_nplike.post_exact",
               "copy_to_native.post_exact", "to_bytearray.post_exact", "to_nplike.post_exact"):
        FLOORS[f"contract:{_k}.{_p}"] = 1000
    FLOORS[f"contract:{_k}.to_native.post_exact"] = 100
FLOORS["suite:runs"] = 1
FLOORS["suite:contract:numpy.update_from_buffer.post_exact"] = 500
RULE = ("exhaustive enumeration of (kind, capacity<=10 quick/16 thorough, offset, length, source offset, "
        "source form/layout, dtype) for update_from_buffer/native/nplike/xbuffer, copy_to_native, to_native, "
        "to_bytearray, to_nplike/to_nparray and the scalar helpers; each call judged by byte-exact contracts "
        "on whole-buffer snapshots; distinct = (kind, capacity, primitive group); non-trivial = capacity > 0. "
        "exhaustive refers to this enumerated scope only.")
ASSUMPTIONS = ["sources handed to update_from_buffer are byte-format buffers (bytes, bytearray, memoryview('B'), uint8 array data)",
               "0-d arrays are not offered to update_from_nplike"]

_ctxs = None


def ctxs():
    global _ctxs
    if _ctxs is None:
        _ctxs = (xo.ContextCpu(), xo.ContextCpu())
    return _ctxs


def mkbuf(kind, cap, ctx=None, salt=0):
    b = bufmon.KINDS[kind](capacity=cap, context=ctx or ctxs()[0])
    bufmon.poke(b, 0, bytes(((i * 29 + 11 + salt * 53) & 0xFF) for i in range(cap)))
    return b


def src_bytes(n, salt=0):
    return bytes(((i * 13 + 200 + salt) & 0xFF) for i in range(n))


def expect(w, cond, mech, msg, case):
    w.count("explicit_checks")
    if not cond:
        w.violation(mech, msg, case)


def g_from_buffer(w, kind, cap):
    for off in range(cap + 1):
        for n in range(cap - off + 1):
            data = src_bytes(n, off)
            for form in ("bytes", "bytearray", "memoryview", "npdata"):
                b = mkbuf(kind, cap)
                src = {"bytes": data, "bytearray": bytearray(data), "memoryview": memoryview(data),
                       "npdata": np.frombuffer(data, dtype=np.uint8).data}[form]
                b.update_from_buffer(off, src)
                w.count("primitive_calls")


def g_from_native(w, kind, cap):
    for m in (cap, cap + 3):
        for off in range(cap + 1):
            for n in range(cap - off + 1):
                for so in range(m - n + 1):
                    b, s = mkbuf(kind, cap), mkbuf(kind, m, salt=1)
                    b.update_from_native(off, s.buffer, so, n)
                    w.count("primitive_calls")
    # overlapping self-copy through the primitive (source is the same storage, disjoint extents)
    for off in range(cap + 1):
        for n in range(cap - off + 1):
            for so in range(cap - n + 1):
                # disjoint and overlapping (shifted) ranges: the bytes that were at the source position arrive
                b = mkbuf(kind, cap)
                b.update_from_native(off, b.buffer, so, n)
                w.count("primitive_calls")
                if not (so + n <= off or off + n <= so) and n:
                    w.count("overlapping_self_copies")


def g_copy_to_native(w, kind, cap):
    for m in (cap, cap + 2):
        for do in range(m + 1):
            for n in range(min(cap, m - do) + 1):
                for so in range(cap - n + 1):
                    b = mkbuf(kind, cap)
                    dest = b._new_buffer(m)
                    bufmon_poke_native(dest, src_bytes(m, 7))
                    b.copy_to_native(dest, do, so, n)
                    w.count("primitive_calls")


def bufmon_poke_native(dest, data):
    if isinstance(dest, np.ndarray):
        dest[:] = np.frombuffer(data, dtype=np.int8)
    else:
        dest[:] = data


def g_extract(w, kind, cap):
    for off in range(cap + 1):
        for n in range(cap - off + 1):
            for prim in ("to_native", "to_bytearray"):
                b = mkbuf(kind, cap)
                before = bufmon.raw_bytes(b)
                r = getattr(b, prim)(off, n)
                w.count("primitive_calls")
                case = dict(kind=kind, cap=cap, prim=prim, off=off, n=n)
                got = bufmon._src_bytes(r)
                expect(w, len(got) == n, f"{prim}-wrong-length", f"len={len(got)} want {n}", case)
                # independence: change the extract, buffer must not change
                if n > 0:
                    try:
                        r[0] = (int(r[0]) + 1) % 100
                    except TypeError:
                        pass
                    expect(w, bufmon.raw_bytes(b) == before, f"{prim}-aliases-buffer",
                           "writing the extracted copy changed the buffer", case)
                    got2 = bufmon._src_bytes(r)
                    bufmon.poke(b, off, bytes((x ^ 0xFF) for x in before[off:off + n]))
                    expect(w, bufmon._src_bytes(r) == got2, f"{prim}-aliases-buffer",
                           "writing the buffer changed the extracted copy", case)


def g_views(w, kind, cap):
    for dt in DTYPES:
        isz = np.dtype(dt).itemsize
        for off in range(cap + 1):
            for cnt in range((cap - off) // isz + 1):
                shapes = [(cnt,)]
                if cnt >= 2 and cnt % 2 == 0:
                    shapes.append((2, cnt // 2))
                for shape in shapes:
                    for prim in ("to_nplike", "to_nparray"):
                        b = mkbuf(kind, cap)
                        before = bufmon.raw_bytes(b)
                        v = getattr(b, prim)(off, np.dtype(dt), shape)
                        w.count("primitive_calls")
                        if cnt == 0:
                            continue
                        case = dict(kind=kind, cap=cap, prim=prim, dtype=dt, off=off, shape=shape)
                        # write through the view: exactly the covered bytes change
                        newvals = np.frombuffer(src_bytes(cnt * isz, 3), dtype=dt).reshape(shape)
                        with np.errstate(all="ignore"):
                            v[...] = newvals
                        after = bufmon.raw_bytes(b)
                        n = cnt * isz
                        want = before[:off] + newvals.tobytes() + before[off + n:]
                        expect(w, after == want, "view-does-not-alias-exactly",
                               "write through typed view did not change exactly the covered bytes", case)
                        # write the buffer: the view sees it
                        bufmon.poke(b, off, before[off:off + n])
                        expect(w, v.tobytes() == before[off:off + n], "view-does-not-alias-exactly",
                               "buffer write not visible through typed view", case)


def layouts(vals, dt):
    """(name, array-like whose logical C-order flattening is `vals`)"""
    a = np.array(vals, dtype=dt)
    out = [("c1", a), ("list", list(a.tolist()))]
    n = len(vals)
    if n >= 1:
        big = np.zeros(2 * n, dtype=dt)
        big[::2] = a
        out.append(("strided", big[::2]))
    if n >= 2 and n % 2 == 0:
        c2 = a.reshape(2, n // 2)
        out.append(("c2", c2.copy()))
        out.append(("f2", np.asfortranarray(c2)))
        out.append(("t2", np.ascontiguousarray(c2.T).T))
    return out


def g_from_nplike(w, kind, cap):
    for dt in DTYPES:
        d = np.dtype(dt)
        for off in range(cap + 1):
            for cnt in range((cap - off) // d.itemsize + 1):
                base = [(i * 3 + off + 1) % 100 for i in range(cnt)]
                srcs = [dt, "int8" if dt != "int8" else "int16", "float64" if dt != "float64" else "int32"]
                if d.itemsize > 1:
                    srcs.append(d.newbyteorder().str)  # same values, non-native byte order
                for sdt in srcs:
                    for name, val in layouts(base, sdt):
                        if name == "list" and sdt != dt:
                            continue
                        b = mkbuf(kind, cap)
                        before = bufmon.raw_bytes(b)
                        case = dict(kind=kind, cap=cap, dest=dt, src=sdt, layout=name, off=off, cnt=cnt)
                        try:
                            b.update_from_nplike(off, d, val)
                        except Exception as e:  # a refusal must at least be side-effect free
                            w.violation(f"update_from_nplike-raises:{name}:{type(e).__name__}",
                                        f"{type(e).__name__}: {e}", case)
                            continue
                        w.count("primitive_calls")
                        w.count("nplike_layout:" + name)
                        if np.dtype(sdt).byteorder not in ("=", "|", "<" if np.little_endian else ">"):
                            w.count("nplike_swapped_sources")
                        if isinstance(val, np.ndarray):
                            expect(w, val.tolist() == np.array(base, dtype=sdt).reshape(val.shape).tolist(),
                                   "update_from_nplike-changes-source", "source array modified", case)


def g_nplike_sequences(w, kind, cap):
    """Several converting updates on ONE buffer, with shrinking item counts (whatever a primitive keeps between calls
    must not leak into the next one); each call is judged by the whole-buffer contract."""
    for dt in DTYPES:
        d = np.dtype(dt)
        sdt = "float64" if dt != "float64" else "int32"
        for off in range(0, cap + 1, 3):
            b = mkbuf(kind, cap)
            for cnt in range((cap - off) // d.itemsize, -1, -1):
                # the same buffer object, its content set back to the base pattern before every call
                bufmon.poke(b, 0, bytes(((i * 29 + 11) & 0xFF) for i in range(cap)))
                val = np.array([(i * 5 + cnt) % 90 for i in range(cnt)], dtype=sdt)
                try:
                    b.update_from_nplike(off, d, val)
                except Exception as e:
                    w.violation(f"update_from_nplike-raises:sequence:{type(e).__name__}", f"{type(e).__name__}: {e}",
                                dict(kind=kind, cap=cap, dest=dt, src=sdt, off=off, cnt=cnt))
                    break
                w.count("primitive_calls")
                w.count("nplike_calls_on_reused_buffer")


def g_xbuffer_scalar(w, kind, cap):
    c0, c1 = ctxs()
    for sctx in (c0, c1):
        for skind in ((kind,) if sctx is c0 else KINDS):
            for off in range(cap + 1):
                for n in range(cap - off + 1):
                    for so in range(cap + 2 - n + 1):
                        b, s = mkbuf(kind, cap, c0), mkbuf(skind, cap + 2, sctx, salt=2)
                        before, sb = bufmon.raw_bytes(b), bufmon.raw_bytes(s)
                        b.update_from_xbuffer(off, s, so, n)
                        w.count("primitive_calls")
                        after = bufmon.raw_bytes(b)
                        case = dict(kind=kind, skind=skind, same_ctx=sctx is c0, cap=cap, off=off, n=n, so=so)
                        expect(w, after == before[:off] + sb[so:so + n] + before[off + n:] and bufmon.raw_bytes(s) == sb,
                               "update_from_xbuffer-wrong-bytes", "wrong bytes transferred", case)
    # scalar read/write helpers built on the primitives
    for T, dt in zip(SCALARS, DTYPES):
        d = np.dtype(dt)
        for off in range(cap - d.itemsize + 1):
            b = mkbuf(kind, cap)
            before = bufmon.raw_bytes(b)
            val = np.frombuffer(src_bytes(d.itemsize, off + 1), dtype=d)[0]
            if d.kind == "f" and val != val:
                val = d.type(1.5)
            T._to_buffer(b, off, val)
            after = bufmon.raw_bytes(b)
            case = dict(kind=kind, cap=cap, scalar=dt, off=off)
            expect(w, after == before[:off] + d.type(val).tobytes() + before[off + d.itemsize:],
                   "scalar-helper-wrong-bytes", "_to_buffer wrote wrong bytes", case)
            got = T._from_buffer(b, off)
            expect(w, got.dtype == d and got.tobytes() == d.type(val).tobytes(), "scalar-helper-wrong-bytes",
                   "_from_buffer read wrong value", case)
            w.count("primitive_calls", 2)
            for cnt in range((cap - off) // d.itemsize + 1):
                arr = np.frombuffer(src_bytes(cnt * d.itemsize, 9), dtype=d)
                b = mkbuf(kind, cap)
                before = bufmon.raw_bytes(b)
                T._array_to_buffer(b, off, arr)
                after = bufmon.raw_bytes(b)
                expect(w, after == before[:off] + arr.tobytes() + before[off + arr.nbytes:],
                       "scalar-helper-wrong-bytes", "_array_to_buffer wrote wrong bytes", case)
                back = T._array_from_buffer(b, off, cnt)
                expect(w, back.tobytes() == arr.tobytes() and back.dtype == d, "scalar-helper-wrong-bytes",
                       "_array_from_buffer read wrong bytes", case)
                w.count("primitive_calls", 2)


G = dict(from_buffer=g_from_buffer, from_native=g_from_native, copy_to_native=g_copy_to_native,
         extract=g_extract, views=g_views, from_nplike=g_from_nplike, xbuffer_scalar=g_xbuffer_scalar)


def g_grow_storage(w, kind, cap):
    """grow(): the old contents are moved into fresh native storage.  Every way of tiling the buffer with <= 3
    packed regions x every subset freed x explicit grow(k) / growth forced by a request: live regions keep
    their bytes exactly and the storage has exactly the new capacity."""
    if cap < 1:
        return
    tilings = [(cap,)] + [(a, cap - a) for a in range(1, cap)] + \
              [(a, b2, cap - a - b2) for a in range(1, cap) for b2 in range(1, cap - a)]
    for sizes in tilings:
        for mask in range(1 << len(sizes)):
            for how in ("grow0", "grow1", "grow5", "alloc"):
                b = mkbuf(kind, cap)
                offs = [b.allocate(sz, align=False) for sz in sizes]
                bufmon.poke(b, 0, bytes(((i * 29 + 11) & 0xFF) for i in range(cap)))
                live = []
                for j, (o, sz) in enumerate(zip(offs, sizes)):
                    if mask >> j & 1:
                        b.free(o, sz)
                    else:
                        live.append((o, sz))
                before = bufmon.raw_bytes(b)
                for o, sz in live[:1]:
                    b.to_nplike(o, np.dtype("int8"), (sz,))  # the view exists before the storage is replaced
                if how == "alloc":
                    b.allocate(cap + 1, align=False)
                else:
                    b.grow(int(how[4:]))
                w.count("primitive_calls")
                w.count("grow_relocations")
                after = bufmon.raw_bytes(b)
                case = dict(kind=kind, cap=cap, regions=list(zip(offs, sizes)), freed_mask=mask, how=how)
                expect(w, len(after) == b.capacity and b.capacity >= cap, "grow-storage-size-differs-from-capacity",
                       f"len(storage)={len(after)} capacity={b.capacity}", case)
                if live:
                    # a typed view requested AFTER the growth aliases the current storage (also when the same view
                    # had been requested before)
                    o, sz = live[0]
                    v1 = b.to_nplike(o, np.dtype("int8"), (sz,))
                    fresh = bytes(((i * 7 + 91) & 0x7F) for i in range(sz))
                    b.update_from_buffer(o, fresh)
                    w.count("views_after_growth")
                    expect(w, v1.tobytes() == fresh, "view-after-growth-does-not-alias", "typed view requested after "
                           f"{how} does not show a later write to [{o},{o + sz})", case)
                    v1[...] = np.frombuffer(before[o:o + sz], dtype=np.int8)
                    after = bufmon.raw_bytes(b)
                    expect(w, after[o:o + sz] == before[o:o + sz], "view-after-growth-does-not-alias",
                           f"store through a typed view requested after {how} did not reach the buffer", case)
                for o, sz in live:
                    if after[o:o + sz] != before[o:o + sz]:
                        expect(w, False, "grow-lost-live-bytes", f"live region [{o},{o + sz}) changed by {how}", case)
                        break
                else:
                    w.count("explicit_checks")


G["grow_storage"] = g_grow_storage


def g_large_transfers(w, kind, cap):
    """Transfers far above any staging block size, between buffers of the same and of different contexts, with
    unequal source and destination offsets (run once per buffer kind, at the largest capacity of the scope)."""
    if cap != (CAPMAX_T if w.tier == "thorough" else CAPMAX_Q):
        return
    c0, c1 = ctxs()
    for n in (65536 + 8, 65537, (1 << 20) + 4096, (2 << 20) + 1, 3 << 20):
        for off, so in ((0, 0), (8, 24), (13, 5)):
            for sctx in (c0, c1):
                for skind in ((kind,) if sctx is c0 else KINDS):
                    b = bufmon.KINDS[kind](capacity=n + 64, context=c0)
                    s_ = bufmon.KINDS[skind](capacity=n + 64, context=sctx)
                    pat = (np.arange(n + 64, dtype=np.int64) * 2654435761 >> 7).astype(np.uint8).tobytes()
                    bufmon.poke(s_, 0, pat)
                    before = bufmon.raw_bytes(b)
                    b.update_from_xbuffer(off, s_, so, n)
                    after = bufmon.raw_bytes(b)
                    w.count("primitive_calls")
                    w.count("large_transfers")
                    case = dict(kind=kind, skind=skind, same_ctx=sctx is c0, n=n, off=off, so=so)
                    expect(w, after == before[:off] + pat[so:so + n] + before[off + n:] and bufmon.raw_bytes(s_) == pat,
                           "large-update_from_xbuffer-wrong-bytes", "wrong bytes transferred", case)
                    # into fresh native storage and back (the path growth takes)
                    dest = b._new_buffer(n + 16)
                    b.copy_to_native(dest, 16, off, n)
                    expect(w, bufmon._src_bytes(dest)[16:16 + n] == after[off:off + n], "large-copy_to_native-wrong-bytes",
                           "wrong bytes copied to native storage", case)
                    w.count("primitive_calls")


G["large_transfers"] = g_large_transfers
G["nplike_sequences"] = g_nplike_sequences


def run_case(w, rng):
    shard, i = (int(x) for x in w.case_seed.split("/")[-2:])
    idx = i * w.nshards + shard
    capmax = CAPMAX_T if w.tier == "thorough" else CAPMAX_Q
    total = len(KINDS) * (capmax + 1) * len(GROUPS)
    if idx >= total:
        return
    kind = KINDS[idx % 2]
    grp = GROUPS[(idx // 2) % len(GROUPS)]
    cap = capmax - (idx // (2 * len(GROUPS)))  # big capacities first (better balance)
    G[grp](w, kind, cap)
    w.case(dict(kind=kind, cap=cap, group=grp), sample=dict(kind=kind, capacity=cap, group=grp), nontrivial=cap > 0)
    for name, det in bufmon.take_contract_failures():
        w.violation("contract:" + name, str(det), dict(kind=kind, cap=cap, group=grp))


def teardown(w):
    for k, v in bufmon.contract_evals.items():
        w.count("contract:" + k, v)


from xv.props import alloc_common as ac
def extra_workload(w):
    """the repository's own test-suite run under the same monitors (shard 0 only)"""
    if True:
        ac.suite_under_monitors(w)
