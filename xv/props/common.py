"""Shared case generation for the object-level properties."""
import xobjects as xo
from xv import bufmon
from xv.typegen import TypeGen, ValGen, build, plain, model_json, shape_sig, walk
from xv.model import Env, construct, exc_kind
from xv.decoder import plan_size

bufmon.install()
bufmon.install_contracts()

_ctx = []


def ctxs():
    if not _ctx:
        _ctx.extend([xo.ContextCpu(), xo.ContextCpu()])
    return _ctx


class Case:
    pass


def use_decoy(t, rng):
    """Classes with the SAME NAMES as those of type t but another layout (fields in another order, other scalar
    types) are defined, instantiated and asked for their C API first -- as when a notebook cell or a factory
    function defines its classes again.  Anything the library remembers by class name must not leak into the
    classes defined afterwards."""
    import copy
    swap = {"Int64": "Float64", "Float64": "Int32", "Int32": "Int64", "Int8": "Int16", "Int16": "UInt8", "UInt8": "Float32",
            "Float32": "UInt16", "UInt16": "Int8", "UInt32": "UInt64", "UInt64": "UInt32"}
    d = copy.deepcopy(t)
    for n in walk(d):
        if n["k"] == "st":
            n["f"].reverse()
            for f in n["f"]:
                if f[1]["k"] == "sc":
                    f[1] = {"k": "sc", "t": swap[f[1]["t"]]}
        elif n["k"] == "ar" and n["it"]["k"] == "sc" and not n.get("anon"):
            n["it"] = {"k": "sc", "t": swap[n["it"]["t"]]}
            if len(n["dims"]) > 1:
                n["ord"] = list(reversed(n["ord"]))
    try:
        cache = {}
        cls = build(d, cache)
        vg = ValGen(rng)
        mv = vg.value(d)
        arg = plain(d, mv, rng)
        if d["k"] == "ur":
            obj = cls(*arg) if arg is not None else cls()
        else:
            obj = cls(arg)
        for c_ in cache.values():
            if hasattr(c_, "_gen_c_api"):
                c_._gen_c_api()
            if hasattr(c_, "_gen_kernels"):
                c_._gen_kernels()
        from xv.model import compare
        compare(d, mv, obj)  # reads everything once (fills whatever is memoised on first use)
    except Exception:
        pass  # the decoy only has to have been used; it is not the object under test


def new_case(w, rng, *, depth=None, roots=("st", "ar", "str", "ur"), tg_kw=None, vg_kw=None, env_kw=None,
             modes=(None, None, "aligned", "packed", "explicit"), decoy=0.1):
    """Random type + value + placement; object built from plain data.  Returns a
    Case with t, cls, cache, mv, env, h, mode, info — or None when the
    construction raised (recorded as a violation)."""
    c = Case()
    if depth is None:
        depth = rng.choice([1, 2, 2, 3, 3]) if w.tier == "quick" else rng.choice([1, 2, 3, 3, 4])
    tgk = dict(tg_kw or {})
    tgk.setdefault("ref_defaults", 0.2)
    vgk = dict(vg_kw or {})
    if w.tier == "thorough":
        # deeper bounds: more fields per struct, larger static extents, longer dynamic extents
        tgk.setdefault("max_fields", 6)
        tgk.setdefault("max_dim", 4)
        vgk.setdefault("max_dyn", 4)
    vg_kw = vgk
    c.tg = TypeGen(rng, max_depth=depth, **tgk)
    c.t = c.tg.root(allow=roots)
    c.cache = {}
    if rng.random() < decoy:
        use_decoy(c.t, rng)
        w.count("same_named_decoy_classes_used_before")
    c.cls = build(c.t, c.cache)
    c.vg = ValGen(rng, **dict(dict(cap_strings=0.08), **(vg_kw or {})))
    c.mv = c.vg.value(c.t)
    c.env = Env(rng, ctx=ctxs()[0], **(env_kw or {}))
    c.mode = rng.choice(modes)
    c.info = dict(type=c.t, value=model_json(c.t, c.mv), placement=c.env.placement(), mode=c.mode)
    c.nontrivial = any(n["k"] in ("st", "ar", "ref", "ur") for n in walk(c.t))
    return c


def build_root(c, rng, obs=None):
    """Construct the root object of case c in c.env from plain data."""
    t, cls, env, mode = c.t, c.cls, c.env, c.mode
    arg = plain(t, c.mv, rng, np_scalars=True)
    need = plan_size(t, c.mv) if mode == "explicit" else None
    c.reserved = None
    if t["k"] == "ur":
        kw = dict(_buffer=env.buf)
        if mode == "explicit":
            off = env.buf.allocate(16)
            c.reserved = (off, 16)
            env.repoison()
            kw["_offset"] = off
        elif mode is not None:
            kw["_offset"] = mode
        if obs is not None:
            obs.__init__(env)
        if arg is None:
            return cls(**kw) if rng.random() < 0.5 else cls(None, **kw)
        return cls(*arg, **kw)
    if mode == "explicit":
        off = env.buf.allocate(need, align=True)
        c.reserved = (off, need)
        env.repoison()
        if obs is not None:
            obs.__init__(env)
        return cls(arg, _buffer=env.buf, _offset=off)
    if obs is not None:
        obs.__init__(env)
    kw = dict(_buffer=env.buf)
    if mode is not None:
        kw["_offset"] = mode
    if isinstance(arg, dict) and rng.random() < 0.3:
        return cls(**arg, **kw)
    return cls(arg, **kw)


def flush_contracts(w, info):
    for name, det in bufmon.take_contract_failures():
        w.violation("contract:" + name, str(det), info)
