"""C07 — C setters change exactly one element; accessors stay in bounds (sanitizers)."""
import os
import tempfile

import numpy as np

from xv import bufmon
from xv.typegen import kinds_in, shape_sig, DT, walk
from xv.model import exc_kind, compare, set_model
from xv.charness import (InProc, plan_calls, class_source_for, script_for, expected_text, standalone_source,
                         build_and_run, sanitizer_reports)
from xv.props.common import new_case, build_root, flush_contracts

ID = "C07"
LEVEL = "exploration"
N_QUICK, N_THOROUGH = 3200, 80000
T_QUICK, T_THOROUGH = 75, 1500
FLOORS = {"types_compiled": 300, "setter_calls_inproc": 1500, "full_rereads": 1500, "byte_diffs_checked": 1500,
          "standalone_runs": 100, "standalone_setter_diffs": 500, "standalone_accessor_lines": 3000,
          "flush_at_image_end": 50, "extreme_values": 500, "growths_between_setter_calls": 100,
          "setter_calls_on_types_with_readonly_fields": 150}
RULE = ("random type AST with scalar leaves (depth<=3) x value; (a) in-process: each sampled generated setter is called "
        "through ContextCpu/cffi with type extremes and random values, then the WHOLE object is re-read against the "
        "model with exactly that leaf replaced and the buffer byte diff must be exactly the leaf's bytes, with forced "
        "buffer growth (storage replacement) between calls of the same kernel; (b) "
        "stand-alone: the real buffer image [0, high-water mark) is loaded into an exactly-sized malloc block and "
        "every accessor (get/getp/len/typeid/member/set) is executed under clang ASan+UBSan "
        "(-fno-sanitize-recover=all); zero report blocks, outputs and per-setter byte diffs equal the expectation. "
        "distinct = name-erased AST.")
ASSUMPTIONS = ["objects sit at 8-aligned offsets of a 16-aligned malloc image in sanitizer runs (UBSan's alignment check is absolute)",
               "float values offered to C are exactly representable in the declared type"]

_ip = None
_tmp = None


def setup(w):
    global _ip, _tmp
    _ip = InProc()
    _tmp = tempfile.mkdtemp(prefix="xvc07_")


def teardown(w):
    import shutil

    shutil.rmtree(_tmp, ignore_errors=True)


def leaf_value(rng, tname, w):
    dt = DT[tname]
    if dt.kind in "iu":
        info = np.iinfo(dt)
        if rng.random() < 0.35:
            w.count("extreme_values")
            return dt.type(rng.choice([info.min, info.max, 0, -1 if info.min < 0 else 1]))
        return dt.type(rng.randint(info.min, info.max))
    if rng.random() < 0.3:
        w.count("extreme_values")
        v = rng.choice([0.0, -0.0, float("inf"), float("-inf"), 1e-45 if dt.itemsize == 4 else 5e-324,
                        3.4028234663852886e38 if dt.itemsize == 4 else 1.7976931348623157e308, -1.5])
    else:
        v = rng.uniform(-1e6, 1e6)
    with np.errstate(all="ignore"):
        return dt.type(v)


def run_case(w, rng):
    standalone = rng.random() < 0.3
    c = new_case(w, rng, roots=("st", "st", "ar", "ar", "ur"), depth=rng.choice([1, 2, 2, 3]),
                 env_kw=dict(al=8 if standalone else rng.choice([8, 1, 16]), neighbours=0 if standalone else rng.choice([1, 2]),
                             kind="numpy" if standalone else None),
                 modes=(None, "aligned") if standalone else (None, "aligned", "packed"), vg_kw=dict(max_dyn=3, nulls=0.2),
                 tg_kw=dict(readonly=0.25))  # fields declared read-only for Python still have C setters
    t, env = c.t, c.env
    seen = set()

    def viol(mech, msg):
        if mech not in seen:
            seen.add(mech)
            w.violation(mech, msg, c.info)

    try:
        env.buf.allocate(rng.choice([8, 24, 40]))
        env.repoison()
        try:
            h = build_root(c, rng)
        except Exception as e:
            w.violation(f"construct-{exc_kind(e)}", f"{type(e).__name__}: {e}", c.info)
            return
        calls = plan_calls(t, h, c.mv, rng=rng)
        setters = [x for x in calls if x.kind == "set"]
        if standalone:
            _standalone(w, rng, c, h, calls[:500], viol)
        else:
            try:
                _ip.compile(c.cls)
            except Exception as e:
                viol(f"compile-{type(e).__name__}", f"{str(e)[-1500:]}")
                return
            w.count("types_compiled")
            rng.shuffle(setters)
            mv = c.mv
            for ci, cl in enumerate(setters[:25]):
                val = leaf_value(rng, cl.leaf_t["t"], w)
                if ci > 0 and rng.random() < 0.12:
                    # the storage is replaced between two calls of the same kernel: offsets stay, addresses do not
                    w.count("growths_between_setter_calls", env.force_growth())
                before = bufmon.raw_bytes(env.buf)
                try:
                    _ip.call(h, cl, val.item())
                except Exception as e:
                    viol(f"call-{type(e).__name__}|set", f"{cl.name}{cl.idx}: {e}")
                    break
                w.count("setter_calls_inproc")
                after = bufmon.raw_bytes(env.buf)
                mv = set_model(t, mv, cl.path, val)
                # exactly the leaf's bytes
                addr, n = int(cl.expect), val.dtype.itemsize
                want = before[:addr] + val.tobytes() + before[addr + n:]
                w.count("byte_diffs_checked")
                if after != want:
                    ch = bufmon.diff_intervals(want, after)
                    viol("setter-changed-other-bytes" if bufmon.diff_intervals(before, after) else "setter-changed-nothing",
                         f"{cl.name}{cl.idx} = {val!r} at {cl.label}: bytes differing from expectation {ch[:4]} (leaf at [{addr},{addr + n}))")
                    break
                cm = compare(t, mv, h, full=False)
                w.count("full_rereads")
                if cl.path and any(n.get("ro") for n in walk(t)):
                    w.count("setter_calls_on_types_with_readonly_fields")
                if cm.errs:
                    path, kind, detail, sig = cm.errs[0]
                    viol(f"reread-after-setter:{kind}|{sig}", f"after {cl.name}{cl.idx} = {val!r}: {path}: {detail}")
                    break
        for kk in kinds_in(t):
            w.seen(kk)
        w.case([shape_sig(t), standalone], sample=dict(c.info, setters=[repr(x) for x in setters[:8]]) if rng.random() < 0.01 else None,
               nontrivial=len(setters) >= 1)
    finally:
        env.close()
        flush_contracts(w, c.info)


def _standalone(w, rng, c, h, calls, viol):
    live = c.env.fol.sh.live_intervals()
    hwm = max([hi for lo, hi in live] + [0])
    image = bufmon.raw_bytes(c.env.buf)[:hwm]
    root_end = int(h._offset) + (16 if c.t['k'] == 'ur' else int(h._get_size()))
    vals = {id(x): leaf_value(rng, x.leaf_t["t"], w) for x in calls if x.kind == "set"}
    lines, expect = script_for(calls, vals)
    src = standalone_source(class_source_for(c.cls), c.cls._c_type, int(h._offset), lines)
    r = build_and_run(src, image, _tmp, f"t{os.getpid()}")
    if r["compile_err"] is not None:
        viol("standalone-compile-error", r["compile_err"][-800:])
        return
    w.count("standalone_runs")
    if root_end == hwm:
        w.count("flush_at_image_end")
    n = sanitizer_reports(r["err"])
    if n or r["rc"] != 0:
        first = [l for l in r["err"].splitlines() if "ERROR" in l or "runtime error" in l][:1]
        kind = "asan" if "AddressSanitizer" in r["err"] else ("ubsan" if "runtime error" in r["err"] else "crash")
        viol(f"sanitizer-report|{kind}", f"rc={r['rc']} reports={n}: {first} {r['err'][-900:]}")
        return
    want = expected_text(expect, image)
    w.count("standalone_accessor_lines", len(want))
    w.count("standalone_setter_diffs", sum(1 for e in expect if isinstance(e, tuple)))
    if r["out"] != want:
        for i, (a, b) in enumerate(zip(r["out"], want)):
            if a != b:
                viol(f"standalone-differs|{calls[i].kind if i < len(calls) else 'end'}",
                     f"{calls[i] if i < len(calls) else ''} at {calls[i].label if i < len(calls) else ''}: C printed {a!r}, expected {b!r}")
                break
        else:
            viol("standalone-differs|length", f"{len(r['out'])} lines vs {len(want)}")
