"""C19 — dictionary and JSON forms rebuild an equal object.

Part A (hybrid classes): H.from_dict(h.to_dict()) against a value model, elision of
fields equal to their declared default, defaults taken by omitted fields.
Part B (structs / 1-D arrays without references): T(x._to_json()), directly and
through real JSON text.
"""
import json
import traceback

import numpy as np

import xobjects as xo
from xv import bufmon
from xv.model import Env, compare, exc_kind
from xv.typegen import kinds_in, shape_sig, plain, walk
from xv.hybridgen import _dims
from xv.hybridgen import (gen_family, ValGenH, to_kwargs, compare_h, copy_model, spec_sig, DT)
from xv.props.common import ctxs, flush_contracts, new_case, build_root

ID = "C19"
LEVEL = "exploration"
N_QUICK, N_THOROUGH = 70000, 800000
T_QUICK, T_THOROUGH = 70, 1500
FLOORS = {"hybrid_roundtrips": 4000, "json_roundtrips": 4000, "json_text_roundtrips": 1500,
          "fields_compared": 15000, "renamed_fields_compared": 3000, "nested_renamed_compared": 800,
          "fields_at_default": 2500, "elision_asserted": 2000, "omitted_field_took_default": 1500,
          "empty_dynamic_arrays": 300, "ref_fields_nonnull": 300, "isolation_writes": 2000, "subclass_roundtrips": 400, "batch_roundtrips": 400, "dictionaries_used_after_later_writes": 400, "derived_entry_roundtrips": 150, "skip_and_store_roundtrips": 300, "values_next_to_the_default": 500, "json_types_with_readonly_fields": 300,
          "seen:json:st": 500, "seen:json:ar": 500, "seen:json:str": 300}
RULE = ("A: generated hybrid class families (1-3 levels; scalars, strings, numeric arrays static/dynamic 1-2 D, nested "
        "hybrids, references to hybrids, renamed fields, default / default_factory) with values deliberately equal to "
        "defaults, empty arrays and strings; from_dict(to_dict()) into default / other buffer / other context compared "
        "field by field (Python attribute and _xobject field) with the model; elision asserted for non-renamed numeric "
        "fields equal to their default; keys removed from the dict must come back as the default; the original must be "
        "untouched and storage independent.  B: random reference-free types whose arrays are 1-D; T(x._to_json()) and "
        "T(json.loads(json.dumps(...))) compared with the model through every accessor. distinct = (family/AST shape, "
        "which fields sit at their default, destination).")
ASSUMPTIONS = [
    "elision is asserted only for non-renamed numeric scalar / static numeric array fields (renamed and string fields are kept by the implementation; harmless)",
    "a reference-to-hybrid attribute of a rebuilt object may be the bare xobject; it is read through whichever representation it has",
    "JSON text: numpy scalars are converted with .item(); NaN/Infinity use Python's json extension",
]


def tb(e):
    return "".join(traceback.format_exception(e))[-1500:]


# --------------------------------------------------------------------------
# part A
# --------------------------------------------------------------------------
STAT = {}


def implicit_default(kind, sub, dflt):
    """The value a field takes when nothing is given (declared default, else zero) or None if there is none."""
    if dflt is not None:
        return dflt
    if kind == "sc":
        return DT[sub].type(0)
    if kind == "arr" and None not in _dims(sub[1]):
        return np.zeros(_dims(sub[1]), dtype=DT[sub[0]])
    return None


def value_with_defaults(spec, vg, rng, p_default, marks, path=""):
    mv = {}
    for xn, pn, kind, sub, dflt in spec["fields"]:
        d = implicit_default(kind, sub, dflt)
        if kind == "nested":
            mv[xn] = value_with_defaults(sub, vg, rng, p_default, marks, path + xn + ".")
        elif kind == "ref":
            mv[xn] = None
        elif d is not None and rng.random() < p_default:
            mv[xn] = d.copy() if isinstance(d, np.ndarray) else d
            marks.append(path + xn)
        elif kind == "sc" and d is not None and rng.random() < 0.2:
            # a value next to the default but not equal to it (one unit / one ulp / a relative 1e-9 away, a tiny
            # number when the default is 0): it is not the default and must survive the round trip
            dt = DT[sub]
            if dt.kind == "f":
                v = rng.choice([np.nextafter(d, dt.type(np.inf)), dt.type(float(d) * (1 + 1e-9) if d != 0 else 2.5e-10),
                                dt.type(float(d) + (1e-12 if abs(float(d)) < 1 else 0.001))])
                if dt.type(v) == d:
                    v = np.nextafter(d, dt.type(np.inf))
                mv[xn] = dt.type(v)
            else:
                mv[xn] = dt.type(int(d) + 1) if int(d) < np.iinfo(dt).max else dt.type(int(d) - 1)
            STAT["values_next_to_the_default"] = STAT.get("values_next_to_the_default", 0) + 1
        elif kind == "sc":
            mv[xn] = vg.scalar(sub)
            pool = [implicit_default(k2, s2, d2) for _x, _p, k2, s2, d2 in spec["fields"] if k2 == "sc"]
            if pool and rng.random() < 0.3:
                # the value of this field coincides with the default of ANOTHER field of the class
                mv[xn] = DT[sub].type(rng.choice(pool))
        elif kind == "str":
            mv[xn] = "" if rng.random() < 0.15 else vg.string()
        else:
            shape = None
            if None in sub[1] and rng.random() < 0.2:
                shape = [0 if d is None else d for d in _dims(sub[1])]
            mv[xn] = vg.array(sub[0], sub[1], shape)
            if d is not None and None in sub[1] and d.size and (d == d.flat[0]).all() and rng.random() < 0.5:
                # the items of the default, in another number: equal to the default only under numpy broadcasting
                shp2 = [rng.choice([x for x in (1, 2, 4, 5) if x != have]) if dd is None else dd
                        for dd, have in zip(_dims(sub[1]), d.shape)]
                mv[xn] = np.full(shp2, d.flat[0], dtype=d.dtype)
                marks.append(path + xn + "(default items, other length)")
                STAT["default_items_other_length"] = STAT.get("default_items_other_length", 0) + 1
            if d is not None and mv[xn].shape == d.shape and mv[xn].size > 1 and rng.random() < 0.4:
                # equal to the default in SOME positions only (still not the default)
                mask = np.array([rng.random() < 0.5 for _ in range(mv[xn].size)]).reshape(mv[xn].shape)
                if mask.any() and not mask.all():
                    mv[xn][mask] = d[mask]
                    marks.append(path + xn + "(partly)")
            elif d is not None and mv[xn].shape == d.shape and mv[xn].size >= 1 and rng.random() < 0.25:
                # the default in every position but one, which is next to the default
                mv[xn] = d.copy()
                i = tuple(rng.randrange(n_) for n_ in d.shape)
                if d.dtype.kind == "f":
                    mv[xn][i] = np.nextafter(d[i], d.dtype.type(np.inf)) if rng.random() < 0.5 else d.dtype.type(float(d[i]) + 1e-12 if abs(float(d[i])) < 1 else float(d[i]) * (1 + 1e-9))
                    if mv[xn][i] == d[i]:
                        mv[xn][i] = np.nextafter(d[i], d.dtype.type(np.inf))
                else:
                    mv[xn][i] = d[i] + 1 if int(d[i]) < np.iinfo(d.dtype).max else d[i] - 1
                marks.append(path + xn + "(next to default)")
                STAT["values_next_to_the_default"] = STAT.get("values_next_to_the_default", 0) + 1
    return mv


def run_hybrid(w, rng):
    levels = rng.choice([0, 1, 1, 2])
    specs, outer = gen_family(rng, levels=levels, refs=True, defaults=True, rename_p=0.35)
    vg = ValGenH(rng)
    env = Env(rng, ctx=ctxs()[0], kind="numpy", neighbours=rng.choice([0, 2]))
    marks = []
    mv = value_with_defaults(outer, vg, rng, rng.choice([0.0, 0.3, 0.6, 1.0]), marks)
    for k_, v_ in STAT.items():
        w.count(k_, v_)
    STAT.clear()
    table = {}
    info = dict(family=[(s["name"], spec_sig(s)) for s in specs], at_default=marks, placement=env.placement())
    seen = set()

    def viol(mech, msg):
        if mech not in seen:
            seen.add(mech)
            w.violation(mech, msg, info)

    def resolve(i):
        return table[i]

    env2 = None
    try:
        try:
            obj = outer["cls"](**to_kwargs(outer, mv, rng, _buffer=env.buf))
            # bind references (same buffer) so that reference fields carry values
            def bind(spec, m, o):
                for xn, pn, kind, sub, dflt in spec["fields"]:
                    if kind == "ref" and rng.random() < 0.7:
                        tmv = value_with_defaults(sub, vg, rng, 0.2, [])
                        tgt = sub["cls"](**to_kwargs(sub, tmv, rng, _buffer=o._buffer))
                        setattr(o, pn, tgt)
                        i = len(table) + 1
                        table[i] = (sub, tmv)
                        m[xn] = i
                        w.count("ref_fields_nonnull")
                    elif kind == "nested":
                        bind(sub, m[xn], getattr(o, pn))
            bind(outer, mv, obj)
        except Exception as e:
            w.violation(f"construct-{exc_kind(e)}", tb(e), info)
            return
        errs = compare_h(outer, mv, obj, resolve)
        if errs:
            # construction itself is C01/C18 business; do not blame the dictionary form
            w.count("skipped_construct_mismatch")
            return
        before = bufmon.raw_bytes(env.buf)
        copy_to_cpu = rng.random() < 0.7
        try:
            d = obj.to_dict() if copy_to_cpu else obj.to_dict(copy_to_cpu=False)
        except Exception as e:
            viol(f"to_dict-{exc_kind(e)}", tb(e))
            return
        if bufmon.raw_bytes(env.buf)[:len(before)] != before:
            viol("to_dict-modified-the-object-buffer", "")
        if d.get("__class__") != outer["name"]:
            viol("to_dict-class-key", repr(d.get("__class__")))
        # ---- elision
        def elision(spec, m, dd, path):
            for xn, pn, kind, sub, dflt in spec["fields"]:
                dv = implicit_default(kind, sub, dflt)
                if kind == "nested":
                    if isinstance(dd.get(pn), dict):
                        elision(sub, m[xn], dd[pn], path + pn + ".")
                    continue
                if kind == "arr" and 0 in m[xn].shape:
                    w.count("empty_dynamic_arrays")
                if dv is None or kind not in ("sc", "arr"):
                    continue
                at_default = (m[xn].tobytes() == dv.tobytes()) if kind == "arr" else (m[xn] == dv)
                if at_default:
                    w.count("fields_at_default")
                    if pn == xn:
                        w.count("elision_asserted")
                        if pn in dd:
                            viol("default-valued-field-not-omitted|" + kind, f"{path}{pn} = {dd[pn]!r:.80} equals its default but is in the dictionary")
                elif pn not in dd:
                    viol("non-default-field-omitted|" + kind, f"{path}{pn} (value {m[xn]!r:.80}, default {dv!r:.80}) missing from the dictionary")
        elision(outer, mv, d, "")
        # ---- rebuild
        dest = rng.choice(["default", "buffer", "context", "same-buffer"])
        kw = {}
        if dest == "buffer":
            env2 = Env(rng, ctx=ctxs()[0], kind="numpy", neighbours=rng.choice([0, 2]))
            kw["_buffer"] = env2.buf
        elif dest == "context":
            kw["_context"] = ctxs()[1]
        elif dest == "same-buffer":
            kw["_buffer"] = env.buf
        dct = {k: v for k, v in d.items() if k != "__class__"} if rng.random() < 0.5 else dict(d)
        try:
            new = outer["cls"].from_dict(dct, **kw)
        except Exception as e:
            viol(f"from_dict-{exc_kind(e)}", tb(e))
            return
        w.count("hybrid_roundtrips")
        w.seen("dest:" + dest)
        errs = compare_h(outer, mv, new, resolve)
        nf, nren, nnren = count_fields(outer, mv, resolve, 0)
        w.count("fields_compared", nf)
        w.count("renamed_fields_compared", nren)
        w.count("nested_renamed_compared", nnren)
        for p, kind, detail in errs[:3]:
            viol(f"rebuilt-differs:{kind}{'|renamed' if 'py_' in p.split('.')[-1] else ''}{'|nested' if p.count('.') > 1 else ''}",
                 f"{p}: {detail}")
        if dest == "buffer" and new._buffer is not env2.buf:
            viol("from_dict-ignored-buffer", "")
        if dest == "context" and new._buffer.context is not ctxs()[1]:
            viol("from_dict-ignored-context", "")
        # original untouched by the rebuild
        errs = compare_h(outer, mv, obj, resolve)
        for p, kind, detail in errs[:2]:
            viol("original-changed-by-roundtrip:" + kind, f"{p}: {detail}")
        # ---- independence: writes to the rebuilt object do not reach the original and vice versa
        if not errs:
            sc = [f for f in outer["fields"] if f[2] == "sc"]
            if sc:
                xn, pn, _, sub, _d = rng.choice(sc)
                v = vg.scalar(sub)
                m2 = copy_model(outer, mv)
                m2[xn] = v
                setattr(new, pn, v.item())
                w.count("isolation_writes")
                if compare_h(outer, mv, obj, resolve):
                    viol("write-to-rebuilt-object-reached-original", pn)
                e2 = compare_h(outer, m2, new, resolve)
                if e2:
                    viol("rebuilt-object-not-writable:" + e2[0][1], f"{e2[0][0]}: {e2[0][2]}")
        # ---- omitted keys come back as defaults
        cand = [f for f in outer["fields"] if f[2] in ("sc", "arr", "str") and
                (implicit_default(f[2], f[3], f[4]) is not None)]
        if cand:
            drop = [f for f in cand if rng.random() < 0.6] or [cand[0]]
            dct2 = {k: v for k, v in d.items() if k not in {f[1] for f in drop}}
            m3 = copy_model(outer, mv)
            for xn, pn, kind, sub, dflt in drop:
                m3[xn] = implicit_default(kind, sub, dflt)
            try:
                new3 = outer["cls"].from_dict(dct2)
            except Exception as e:
                viol(f"from_dict-with-omitted-defaulted-fields-{exc_kind(e)}", f"{type(e).__name__}: {e} (omitted {[f[1] for f in drop]})")
                return
            w.count("omitted_field_took_default", len(drop))
            for p, kind, detail in compare_h(outer, m3, new3, resolve)[:2]:
                viol(f"omitted-field-not-default:{kind}", f"{p}: {detail} (omitted {[f[1] for f in drop]})")
        if rng.random() < 0.35 and not seen:
            _subclass_roundtrip(w, rng, outer, vg, env, viol, resolve)
        if rng.random() < 0.3 and not seen:
            _batch_roundtrip(w, rng, outer, vg, env, viol, resolve)
        if rng.random() < 0.25 and not seen:
            _skip_store_roundtrip(w, rng, outer, vg, env, viol, resolve)
        if rng.random() < 0.25 and not seen:
            _later_writes(w, rng, outer, vg, env, viol, resolve)
        if rng.random() < 0.1 and not seen:
            _derived_entry_roundtrip(w, rng, env, viol)
        w.case(["hy", [spec_sig(s) for s in specs], sorted(marks), dest],
               sample=dict(info, dict_keys=sorted(d)) if rng.random() < 0.003 else None)
    finally:
        env.close()
        if env2 is not None:
            env2.close()
        flush_contracts(w, info)


def _subclass_roundtrip(w, rng, parent, vg, env, viol, resolve):
    """A subclass that redeclares the fields with other defaults, used AFTER the parent class has produced a
    dictionary: values equal to the parent's default (not the subclass's own) must survive the round trip, values
    equal to the subclass's own default are the ones that may be omitted."""
    from xv.hybridgen import make_subclass
    sub = make_subclass(rng, parent)
    if sub is None:
        return
    pd = {f[0]: implicit_default(f[2], f[3], f[4]) for f in parent["fields"]}
    mv = {}
    for xn, pn, kind, s_, dflt in sub["fields"]:
        own = implicit_default(kind, s_, dflt)
        if kind == "sc":
            r = rng.random()
            mv[xn] = pd[xn] if r < 0.45 else (own if r < 0.7 else vg.scalar(s_))
        elif kind == "str":
            mv[xn] = vg.string()
        elif kind == "arr":
            mv[xn] = vg.array(s_[0], s_[1])
        elif kind == "nested":
            mv[xn] = vg.value(s_)
        else:
            mv[xn] = None
    try:
        obj = sub["cls"](**to_kwargs(sub, mv, rng, _buffer=env.buf))
        d = obj.to_dict()
        new = sub["cls"].from_dict(d)
    except Exception as e:
        viol(f"subclass-roundtrip-{exc_kind(e)}", tb(e))
        return
    w.count("subclass_roundtrips")
    for p, kind, detail in compare_h(sub, mv, new, resolve)[:2]:
        viol(f"subclass-rebuilt-differs:{kind}", f"{p}: {detail} (dictionary keys {sorted(d)})")
    for xn, pn, kind, s_, dflt in sub["fields"]:
        if kind == "sc" and pn == xn:
            own = implicit_default(kind, s_, dflt)
            if mv[xn] == own and pn in d:
                viol("subclass-default-valued-field-not-omitted|sc", f"{pn} = {d[pn]!r}")
            if mv[xn] != own and pn not in d:
                viol("subclass-non-default-field-omitted|sc", f"{pn}: value {mv[xn]!r}, own default {own!r}, parent default {pd[xn]!r}")


def _batch_roundtrip(w, rng, spec, vg, env, viol, resolve):
    """The dictionaries of several objects are all taken first and the objects rebuilt afterwards (saving a collection):
    what a dictionary holds must not depend on later to_dict calls."""
    mvs, objs = [], []
    try:
        for _ in range(rng.randint(2, 4)):
            mv = value_with_defaults(spec, vg, rng, 0.2, [])
            mvs.append(mv)
            objs.append(spec["cls"](**to_kwargs(spec, mv, rng, _buffer=rng.choice([env.buf, None]))))
        ds = [o.to_dict() for o in objs]
        news = [spec["cls"].from_dict(d) for d in ds]
    except Exception as e:
        viol(f"batch-roundtrip-{exc_kind(e)}", tb(e))
        return
    w.count("batch_roundtrips")
    w.count("objects_rebuilt_after_later_to_dict_calls", len(objs) - 1)
    for i, (mv, new) in enumerate(zip(mvs, news)):
        for p, kind, detail in compare_h(spec, mv, new, resolve)[:1]:
            viol(f"batch-rebuilt-differs:{kind}", f"object {i} of {len(objs)}: {p}: {detail}")


def _later_writes(w, rng, spec, vg, env, viol, resolve):
    """The dictionary of an object is a value: what is written to the object AFTER to_dict() (array items, scalars)
    does not show in the object rebuilt from that dictionary."""
    try:
        mv = value_with_defaults(spec, vg, rng, 0.1, [])
        obj = spec["cls"](**to_kwargs(spec, mv, rng, _buffer=rng.choice([env.buf, None])))
        d = obj.to_dict()
        nw = 0
        for xn, pn, kind, sub, dflt in spec["fields"]:
            if kind == "arr" and mv[xn].size:
                a = getattr(obj, pn)
                idx = tuple(rng.randrange(n_) for n_ in a.shape)
                a[idx] = a[idx] + 1 if a.dtype.kind == "f" else (a[idx] ^ 1)
                nw += 1
            elif kind == "sc":
                setattr(obj, pn, (mv[xn] + 1 if mv[xn].dtype.kind == "f" else mv[xn] ^ 1).item())
                nw += 1
        new = spec["cls"].from_dict(d)
    except Exception as e:
        viol(f"later-writes-{exc_kind(e)}", tb(e))
        return
    w.count("dictionaries_used_after_later_writes")
    w.count("later_writes", nw)
    for p, kind, detail in compare_h(spec, mv, new, resolve)[:1]:
        viol(f"dictionary-follows-later-writes-to-the-object:{kind}", f"{p}: {detail}")


_DER = []


def _derived_entry_roundtrip(w, rng, env, viol):
    """A class keeps a raw field out of its dictionary (_skip_in_to_dict) and stores a derived entry instead
    (_store_in_to_dict) that its own __init__ takes back: the dictionary form still rebuilds an equal object."""
    if not _DER:
        class XvDerived(xo.HybridClass):
            _xofields = {"raw2": xo.Int64, "k": xo.Int64, "v": xo.Float64[:]}
            _skip_in_to_dict = ["raw2"]
            _store_in_to_dict = ["half"]

            def __init__(self, half=None, **kw):
                if half is not None:
                    kw["raw2"] = 2 * int(half)
                super().__init__(**kw)

            @property
            def half(self):
                return int(self.raw2) // 2
        from xv.hybridgen import register
        _DER.append(register(XvDerived))
    D = _DER[0]
    h, k = rng.randint(1, 10 ** 6), rng.randint(1, 100)
    v = [float(rng.randint(0, 9)) for _ in range(rng.randint(0, 3))]
    try:
        o = D(half=h, k=k, v=v, _buffer=rng.choice([env.buf, None]))
        d = o.to_dict()
        new = D.from_dict(d)
    except Exception as e:
        viol(f"derived-entry-roundtrip-{exc_kind(e)}", tb(e))
        return
    w.count("derived_entry_roundtrips")
    if "half" not in d or "raw2" in d:
        viol("derived-entry-dictionary-keys", f"{sorted(d)}")
    if int(new.raw2) != 2 * h or int(new.k) != k or list(new.v) != v:
        viol("derived-entry-rebuilt-differs", f"raw2={int(new.raw2)} (expected {2 * h}), k={int(new.k)} ({k}), v={list(new.v)} ({v}); dictionary {d!r:.200}")


def _skip_store_roundtrip(w, rng, parent, vg, env, viol, resolve):
    """A class skips a field in its dictionary form (_skip_in_to_dict); a class derived from it lists that field in
    _store_in_to_dict: for the derived class the field is part of the dictionary again and survives the round trip."""
    cand = [f for f in parent["fields"] if f[2] in ("sc", "str", "arr")]
    if not cand:
        return
    xn, pn, kind, s_, dflt = rng.choice(cand)
    ren = {a: b for a, b, *_ in parent["fields"] if a != b}
    try:
        ns = {"_skip_in_to_dict": [pn]}
        if ren:
            ns["_rename"] = dict(ren)
        sk = type(parent["name"] + "Skip", (parent["cls"],), ns)
        ns2 = {"_store_in_to_dict": [pn]}
        if ren:
            ns2["_rename"] = dict(ren)
        st = type(parent["name"] + "SkipStore", (sk,), ns2)
        from xv.hybridgen import register
        register(sk)
        register(st)
        spec = {"name": st.__name__, "fields": parent["fields"], "cls": st}
        mv = value_with_defaults(spec, vg, rng, 0.0, [])
        obj = st(**to_kwargs(spec, mv, rng, _buffer=env.buf))
        d = obj.to_dict()
        new = st.from_dict(d)
    except Exception as e:
        viol(f"skip-store-roundtrip-{exc_kind(e)}", tb(e))
        return
    w.count("skip_and_store_roundtrips")
    if pn not in d:
        dv = implicit_default(kind, s_, dflt)
        isd = dv is not None and ((mv[xn].tobytes() == dv.tobytes()) if kind == "arr" else (mv[xn] == dv))
        if not isd:
            viol("field-listed-in-_store_in_to_dict-missing", f"{pn} (skipped by the parent class, stored again by the derived class) is not in {sorted(d)}")
    for p, kind_, detail in compare_h(spec, mv, new, resolve)[:1]:
        viol(f"skip-store-rebuilt-differs:{kind_}", f"{p}: {detail}")


def count_fields(spec, mv, resolve, depth):
    n = ren = nren = 0
    for xn, pn, kind, sub, dflt in spec["fields"]:
        n += 1
        if pn != xn:
            ren += 1
            if depth > 0:
                nren += 1
        if kind == "nested":
            a, b, c = count_fields(sub, mv[xn], resolve, depth + 1)
            n, ren, nren = n + a, ren + b, nren + c
        elif kind == "ref" and mv[xn] is not None:
            ts, tm = resolve(mv[xn])
            a, b, c = count_fields(ts, tm, resolve, depth + 1)
            n, ren, nren = n + a, ren + b, nren + c
    return n, ren, nren


# --------------------------------------------------------------------------
# part B
# --------------------------------------------------------------------------
def _np_default(o):
    if isinstance(o, np.generic):
        return o.item()
    if isinstance(o, np.ndarray):
        return o.tolist()
    raise TypeError(type(o).__name__)


def run_json(w, rng):
    c = new_case(w, rng, roots=("st", "ar"), tg_kw=dict(refs=False, max_nd=1, readonly=0.15), depth=rng.choice([1, 2, 2, 3]), decoy=0.0)
    info = c.info
    seen = set()

    def viol(mech, msg):
        if mech not in seen:
            seen.add(mech)
            w.violation(mech, msg, info)

    env2 = None
    try:
        try:
            x = build_root(c, rng)
        except Exception as e:
            w.violation(f"construct-{exc_kind(e)}", tb(e), info)
            return
        if compare(c.t, c.mv, x).errs:
            w.count("skipped_construct_mismatch")
            return
        before = bufmon.raw_bytes(c.env.buf)
        try:
            j = x._to_json()
        except Exception as e:
            viol(f"to_json-{exc_kind(e)}", tb(e))
            return
        if bufmon.raw_bytes(c.env.buf) != before:
            viol("to_json-modified-the-buffer", "")
        forms = [("direct", j)]
        try:
            txt = json.dumps(j, default=_np_default)
            forms.append(("text", json.loads(txt)))
        except Exception as e:
            viol("json-form-not-serialisable", tb(e))
        for name, data in forms:
            dest = rng.choice(["same", "other", "default"])
            kw = {}
            if dest == "same":
                kw["_buffer"] = c.env.buf
            elif dest == "other":
                env2 = env2 or Env(rng, ctx=ctxs()[rng.randrange(2)])
                kw["_buffer"] = env2.buf
            try:
                y = c.cls(data, **kw)
            except Exception as e:
                viol(f"rebuild-{name}-{exc_kind(e)}", tb(e))
                continue
            w.count("json_roundtrips")
            if name == "text":
                w.count("json_text_roundtrips")
            cm = compare(c.t, c.mv, y)
            w.count("json_reads", cm.reads)
            for p, kind, detail, sig in cm.errs[:2]:
                viol(f"rebuilt-{name}-differs:{kind}|{sig}", f"{p}: {detail}")
            if y._buffer is x._buffer and int(y._offset) == int(x._offset):
                viol("rebuilt-object-is-the-original", "")
        cm = compare(c.t, c.mv, x)
        for p, kind, detail, sig in cm.errs[:1]:
            viol(f"original-changed:{kind}|{sig}", f"{p}: {detail}")
        if any(n.get("ro") for n in walk(c.t)):
            w.count("json_types_with_readonly_fields")
        for k in kinds_in(c.t):
            w.seen("json:" + ("ar" if k.startswith("ar") else k.split(":")[0]))
        w.case(["json", shape_sig(c.t)], sample=dict(info, json=repr(j)[:300]) if rng.random() < 0.003 else None,
               nontrivial=c.nontrivial)
    finally:
        c.env.close()
        if env2 is not None:
            env2.close()
        flush_contracts(w, info)


def run_case(w, rng):
    if rng.random() < 0.5:
        run_hybrid(w, rng)
    else:
        run_json(w, rng)
