"""C03 — an object never writes outside the bytes reserved for it."""
import numpy as np

from xv import bufmon
import xobjects as xo
from xv.typegen import kinds_in, shape_sig, is_static, plain, AVal, _uid
from xv.model import Obs, exc_kind, nodes, get_path, set_path, set_model, ar_sig
from xv.decoder import decode, plan_size
from xv.props.common import new_case, build_root, flush_contracts, ctxs

ID = "C03"
LEVEL = "exploration"
N_QUICK, N_THOROUGH = 140000, 1500000
T_QUICK, T_THOROUGH = 70, 1500
FLOORS = {"constructions": 4000, "assignments": 8000, "logged_writes": 50000, "changed_intervals": 20000,
          "size_checks": 4000, "with_live_neighbours": 1500, "assign:sc": 2000, "assign:str": 500,
          "assign:ref": 200, "assign:ar": 300, "assign:st": 200, "extent_tree_nodes": 50000, "string_api_attempts": 3000}
RULE = ("random type AST x value x placement with poisoned dead bytes and stamped live neighbours; construction and "
        "up to 6 fitting assignments (scalar, string of fitting length, reference, whole array/struct of equal "
        "shape) through the constructor handle, a root view or a nested view; oracle: every logged write and every "
        "changed byte lies in the extent reserved for the object/element (from the allocation log and the "
        "independent decoder's extent tree) or in an allocation made during the operation; reported size == "
        "allocated size == documented size == decoded extent; children inside parents, siblings disjoint; "
        "neighbours' stamps intact; plus fixed-size strings (String.fixed) as field/item and String.update(), where accepting or refusing a text is not judged, only that no byte outside the string changes and an accepted text reads back. distinct = (name-erased AST, placement class).")
ASSUMPTIONS = ["fitting string = utf-8 length <= length of the string stored at creation"]


def _string_api_case(w, rng):
    """Strings of fixed size (String.fixed(n) as struct field / array item) and String.update(): whether a text is
    accepted or refused is not judged here; what is judged is that nothing outside the bytes of the addressed string
    changes, that the string keeps its size word, and that an accepted text reads back."""
    from xv.model import Env
    env = Env(rng, ctx=ctxs()[0], neighbours=rng.choice([1, 2, 3]))
    info = dict(placement=env.placement())
    seen = set()

    def viol(mech, msg):
        if mech not in seen:
            seen.add(mech)
            w.violation(mech, msg, info)

    def text(n):
        base = rng.choice(["abcdefghijklmnopqrstuvwxyz0123456789" * 2, "héllo wörld ünïcode çà et là, déjà vu encore"])
        return base[:n]

    try:
        buf = env.buf
        kind = rng.choice(["fixed-field", "fixed-item", "update", "update"])
        info["kind"] = kind
        try:
            if kind.startswith("fixed"):
                n = rng.choice([16, 24, 32, 40])
                F = xo.String.fixed(n)
                if kind == "fixed-field":
                    R = type(f"XvFx{next(_uid)}", (xo.Struct,), {"k": xo.Int64, "name": F, "x": xo.Float64})
                    holder = R(k=3, name=rng.choice([1, 5, n - 8]), x=2.5, _buffer=buf)
                    lo = int(holder._offset) + int(R.name.offset)
                    setter = lambda v: setattr(holder, "name", v)   # noqa
                    getter = lambda: holder.name                     # noqa
                else:
                    holder = F[3]([1, 2, 3], _buffer=buf)
                    lo = int(holder._get_offset(1))
                    setter = lambda v: holder.__setitem__(1, v)      # noqa
                    getter = lambda: holder[1]                       # noqa
                hi = lo + n
                values = [text(rng.randint(0, n - 9)), text(rng.randint(n - 8, n - 1)), text(n + rng.randint(0, 6)), text(n - 9)]
            else:
                first = rng.choice([text(rng.randint(1, 20)), rng.choice([8, 13, 16, 40])])
                sobj = xo.String(first, _buffer=buf)
                lo, hi = int(sobj._offset), int(sobj._offset) + int(sobj._size)
                setter = sobj.update
                getter = sobj.to_str
                room = int(sobj._size) - 8
                values = [text(max(0, room - rng.randint(1, 8))), text(room - 1), text(room + rng.randint(0, 9)), ("obj", text(max(0, room - 9)))]
            xo.String("the neighbour", _buffer=buf)
            xo.Int64[3]([21, 22, 23], _buffer=buf)
        except Exception as e:
            w.count("string_api_setup_refused")
            return
        env.repoison()
        size_word = bytes(bufmon.raw_bytes(buf)[lo:lo + 8])
        for v in values:
            if isinstance(v, tuple):
                v = xo.String(v[1], _buffer=rng.choice([None, buf]))
                env.repoison()
            before = bufmon.raw_bytes(buf)
            try:
                setter(v)
                ok = True
            except Exception:
                ok = False
            after = bufmon.raw_bytes(buf)
            w.count("string_api_attempts")
            w.count("string_api_accepted" if ok else "string_api_refused")
            bad = [(a, b) for a, b in bufmon.diff_intervals(before[:len(after)], after[:len(before)]) if a < lo or b > hi]
            if bad:
                viol(f"string-api:{kind}:bytes-changed-outside-the-string|{'accepted' if ok else 'refused'}",
                     f"value {str(v)!r:.50}: bytes {bad[:3]} changed, the string occupies [{lo},{hi})")
                break
            if after[lo:lo + 8] != size_word and kind == "update":
                viol(f"string-api:{kind}:size-word-changed", f"value {str(v)!r:.50}")
                break
            if ok:
                want = v if isinstance(v, str) else v.to_str()
                try:
                    got = getter()
                except Exception as e:
                    got = f"<{type(e).__name__}>"
                if got != want:
                    viol(f"string-api:{kind}:accepted-text-reads-back-differently", f"wrote {want!r:.40}, read {got!r:.40}")
                    break
        if env.neighbours_intact():
            viol(f"string-api:{kind}:stamped-neighbour-damaged", str(env.neighbours_intact()))
        w.case(["string-api", kind], nontrivial=True)
    finally:
        env.close()
        flush_contracts(w, info)


def run_case(w, rng):
    if rng.random() < 0.05:
        return _string_api_case(w, rng)
    c = new_case(w, rng)
    t, env = c.t, c.env
    seen = set()

    def viol(mech, msg, extra=None):
        if mech not in seen:
            seen.add(mech)
            info = dict(c.info)
            if extra:
                info["step"] = extra
            w.violation(mech, msg, info)

    try:
        obs = Obs(env)
        from_xobject = False
        try:
            if t["k"] in ("st", "ar") and rng.random() < 0.25:
                from_xobject = True
                # copy-construction from an object that lives in the same buffer or elsewhere, taken through the
                # handle its constructor returned or through a view rebuilt from buffer and offset
                c.mode, c.reserved = None, None
                src = c.cls(plain(t, c.mv, rng, np_scalars=True), _buffer=env.buf if rng.random() < 0.6 else None)
                if rng.random() < 0.5:
                    src = c.cls._from_buffer(src._buffer, src._offset)
                    w.count("constructed_from_rebuilt_view")
                env.repoison()
                obs.__init__(env)
                h = c.cls(src, _buffer=env.buf)
                w.count("constructed_from_xobject")
            else:
                h = build_root(c, rng, obs)
        except Exception as e:
            w.violation(f"construct-{exc_kind(e)}", f"{type(e).__name__}: {e}", c.info)
            return
        obs.done()
        w.count("constructions")
        if env.neigh:
            w.count("with_live_neighbours")
        for kk in kinds_in(t):
            w.seen(kk)
        if c.reserved is not None:
            root = c.reserved
            allocs = obs.allocs
        elif obs.allocs:
            root, allocs = obs.allocs[0], obs.allocs[1:]
        else:
            viol("no-allocation-observed", "construction did not call allocate()")
            return
        off = int(h._offset)
        if (from_xobject or c.mode in (None, "aligned")) and c.reserved is None and root[0] % env.al:
            # placed by the allocator on request of the constructor: the default and 'aligned' ask for the buffer's alignment
            viol("object-not-aligned-as-requested", f"offset {root[0]} is not a multiple of the buffer alignment {env.al} (mode {c.mode})")
        if off != root[0]:
            viol("handle-offset-differs-from-allocation", f"_offset {off}, allocated {root}")
        A = [(root[0], root[0] + root[1])] + [(o, o + s) for o, s in allocs]
        _check_extents(w, viol, "construct", obs, A)
        # (iii) sizes
        want = 16 if t["k"] == "ur" else plan_size(t, c.mv)
        if from_xobject and _has_capstr(t, c.mv):
            # a copy may or may not keep the spare capacity of strings created from a capacity: the documented size
            # is not unique; allocated == reported == decoded is still demanded
            want = root[1]
        rep = getattr(h, "_size", None)
        rep = int(rep) if rep is not None else None
        if hasattr(h, "_get_size"):
            gs = int(h._get_size())
            if rep is not None and gs != rep:
                viol(f"size-mismatch|_size-vs-_get_size|{t['k']}", f"_size {rep} _get_size() {gs}")
            rep = gs
        w.count("size_checks")
        if c.reserved is None and root[1] != want:
            viol(f"size-mismatch|allocated-vs-documented|{t['k']}", f"allocated {root[1]}, documented layout needs {want}")
        if rep is not None and rep != want:
            viol(f"size-mismatch|reported-vs-documented|{t['k']}", f"reported {rep}, documented layout needs {want}")
        # (iv) extent tree from the independent decoder
        exts = _decode_exts(w, viol, c, off, want)
        if exts is None:
            return
        _check_targets(viol, env, exts)
        bad = env.neighbours_intact()
        if bad:
            viol("neighbour-damaged|construct", f"stamped neighbour at {bad} changed")
        # ---- fitting assignments
        mv = c.mv
        view = None
        for step in range(rng.randint(2, 6)):
            cand = [(p, l, nt, nv) for p, l, nt, nv in nodes(t, mv) if p and _assignable(nt, nv, l)]
            if not cand:
                break
            p, l, nt, nv = rng.choice(cand)
            k = nt["k"]
            if k in ("ref", "ur"):
                newv = c.vg.value(nt)
            else:
                newv = c.vg.same_shape(nt, nv)
                if k == "str" and len(newv) > 1 and rng.random() < 0.3:
                    newv = newv[: rng.randint(0, len(newv) - 1)]
            arg = plain(nt, newv, rng, np_scalars=True)
            via = rng.choice(["handle", "view", "nested"])
            try:
                if via == "view" or (via == "nested" and len(p) < 2):
                    if view is None:
                        view = c.cls._from_buffer(env.buf, h._offset) if t["k"] != "str" else h
                    base, sub = view, p
                    if t["k"] == "ur":
                        base = h.get()
                elif via == "nested":
                    cut = rng.randint(1, len(p) - 1)
                    base, sub = get_path(_root(h, t), p[:cut]), p[cut:]
                else:
                    base, sub = _root(h, t), p
                exts = _decode_exts(w, viol, c, off, want, quiet=True, mv=mv)
                if exts is None or l not in exts:
                    break
                e = exts[l]
                o2 = Obs(env)
                set_path(base, sub, arg)
                o2.done()
            except Exception as ex:
                viol(f"assign-{exc_kind(ex)}|{k}", f"{l} via {via}: {type(ex).__name__}: {ex}", dict(label=l, new=repr(arg)[:200]))
                break
            w.count("assignments")
            w.count("assign:" + k)
            A2 = [(e.start, e.end)] + [(o, o + s) for o, s in o2.allocs]
            _check_extents(w, viol, f"assign|{k}|{ar_sig(nt) if k == 'ar' else ''}", o2, A2, dict(label=l, via=via, new=repr(arg)[:200]))
            bad = env.neighbours_intact()
            if bad:
                viol(f"neighbour-damaged|assign|{k}", f"stamped neighbour at {bad} changed after {l} = {arg!r:.100}")
            mv = set_model(t, mv, p, newv)
        w.case([shape_sig(t), env.kind, env.al, c.mode, len(env.neigh) > 0],
               sample=c.info if c.nontrivial and rng.random() < 0.003 else None, nontrivial=c.nontrivial)
    finally:
        env.close()
        flush_contracts(w, c.info)


def _has_capstr(t, mv):
    from xv.typegen import CapStr
    return any(isinstance(nv, CapStr) for _p, _l, nt, nv in nodes(t, mv) if nt["k"] == "str")


def _root(h, t):
    return h.get() if t["k"] == "ur" else h


def _assignable(nt, nv, label):
    k = nt["k"]
    if k in ("sc", "str", "ref", "ur"):
        return True
    if label.endswith("->") or (label[-1].isdigit() and label[-3:-1] == "->"):
        return False  # target of a reference: assigning there would re-bind the reference
    if k == "ar":
        return 0 not in nv.shape
    return k == "st"


def _check_extents(w, viol, what, obs, A, extra=None):
    w.count("logged_writes", len(obs.writes))
    w.count("changed_intervals", len(obs.changed))
    for name, o, n in obs.writes:
        if o is None:
            continue
        if n > 0 and not bufmon.inside(o, o + n, A):
            viol(f"{what}:write-outside-reserved-extent|{name}", f"{name} wrote [{o},{o + n}), allowed {sorted(A)}", extra)
            break
    for lo, hi in obs.changed:
        if not bufmon.inside(lo, hi, A):
            viol(f"{what}:bytes-changed-outside-reserved-extent", f"bytes [{lo},{hi}) changed, allowed {sorted(A)}", extra)
            break


def _decode_exts(w, viol, c, off, want, quiet=False, mv=None):
    raw = bufmon.raw_bytes(c.env.buf)
    v, ext, errs, targets = decode(c.t, raw, off)
    if ext is None:
        if not quiet:
            viol("undecodable", f"{errs[:2]}")
        return None
    if not quiet:
        for kind, label, detail in errs:
            if kind in ("child-outside-parent", "siblings-overlap", "item-outside-array-extent",
                        "dynamic-field-offset-outside-struct", "item-offset-outside-array"):
                viol("extent-tree:" + kind, f"{label}: {detail}")
        if ext.size != want:
            viol(f"size-mismatch|decoded-vs-documented|{c.t['k']}", f"decoded extent {ext.size}, documented layout needs {want}")
    out = {}
    for r in [ext] + targets:
        for e in r.flat():
            out.setdefault(e.label, e)
    if not quiet:
        w.count("extent_tree_nodes", len(out))
    return out


def _check_targets(viol, env, exts):
    sh = env.fol.sh
    for lab, e in exts.items():
        if (lab.endswith("->") or (lab[-1].isdigit() and lab[-3:-1] == "->")) and e.size > 0:
            if not sh.is_live(e.start, e.end):
                viol("reference-target-not-in-live-allocation", f"{lab}: [{e.start},{e.end}) live={sorted(sh.live_intervals())[:8]}")
