"""C04 — live allocations never overlap, stay in bounds, stay aligned, keep data."""
from xv.props import alloc_common as ac

ID = "C04"
LEVEL = "exploration"
N_QUICK, N_THOROUGH = 48000, 400000
T_QUICK, T_THOROUGH = 60, 1200
FLOORS = {"histories": 1000, "growths": 200, "frees": 5000, "stamp_checks": 20000}
FLOORS["impossible_requests_refused"] = 200
FLOORS["buffers_copied"] = 500
FLOORS["audits_of_the_other_buffer"] = 10000
FLOORS_THOROUGH = {"suite:runs": 1, "suite:allocs": 300}
RULE = ("random walks over {allocate(size, aligned|packed), free(live), grow(n)} x capacity x alignment x "
        "grow_step x both CPU buffer kinds (in 20% of the histories the buffer is copied by copy.deepcopy or a pickle round trip at some point and both buffers are driven on, each audited after every event of the other), plus exhaustive small-scope histories (capacity<=16, 4 sizes, "
        "depth 4 quick / 5 thorough); after EVERY event: bounds, alignment, pairwise disjointness, and a "
        "unique byte stamp per live region re-verified. distinct = (kind, capacity class, alignment, "
        "grow_step, length class, first 12 op kinds); a case is non-trivial when it has >= 5 ops.")
ASSUMPTIONS = ["histories are well-formed: only live regions are freed, zero-size regions are never freed"]
N_ENUM = 2  # enumeration cases per shard


def run_case(w, rng):
    shard, i = (int(x) for x in w.case_seed.split("/")[-2:])
    if i < N_ENUM:
        ac.enum_histories(w, i * w.nshards + shard, 5 if w.tier == "thorough" else 4, True, False)
    else:
        ac.random_history(w, rng, True, False)


def extra_workload(w):
    """the repository's own test-suite run under the same monitors (shard 0 only)"""
    if w.tier == "thorough":
        ac.suite_under_monitors(w)
