"""C12 — allocator is first-fit, leak-free, coalescing, and free never fails."""
from xv.props import alloc_common as ac

ID = "C12"
LEVEL = "exploration"
N_QUICK, N_THOROUGH = 48000, 400000
T_QUICK, T_THOROUGH = 60, 1200
FLOORS = {"histories": 1000, "growths": 200, "frees": 5000, "get_free_checks": 20000,
          "alloc_fit_existed": 5000, "alloc_needed_growth": 200, "frees_into_full_buffer": 100}
FLOORS["impossible_requests_refused"] = 200
FLOORS["buffers_copied"] = 500
FLOORS["audits_of_the_other_buffer"] = 10000
FLOORS_THOROUGH = {"suite:runs": 1, "suite:allocs": 300}
RULE = ("same history space as C04, every event judged in lock-step against an executable specification of "
        "a sorted, coalescing first-fit free list (xv.bufmon.Shadow): returned offset == lowest fitting free "
        "space, growth iff nothing fits, capacity monotone, free() never raises, get_free() == capacity - "
        "live - lost-to-padding, free list equals the spec's. distinct = as C04.")
ASSUMPTIONS = ["growth *amount* is taken from the implementation (not fixed by the property)",
               "zero-size requests are judged for placement only when a free interval exists"]
N_ENUM = 2


def run_case(w, rng):
    shard, i = (int(x) for x in w.case_seed.split("/")[-2:])
    if i < N_ENUM:
        ac.enum_histories(w, i * w.nshards + shard, 5 if w.tier == "thorough" else 4, False, True)
    else:
        ac.random_history(w, rng, False, True)


def extra_workload(w):
    """the repository's own test-suite run under the same monitors (shard 0 only)"""
    if w.tier == "thorough":
        ac.suite_under_monitors(w)
