"""C10 — assigning one element changes that element and nothing else."""
import numpy as np

from xv.typegen import kinds_in, shape_sig, is_static, plain, build, has_refs
import xobjects as xo
from xv.typegen import merge_caps, decap
from xv.model import get_model, compare, exc_kind, nodes, get_path, set_path, set_model, ar_sig, Env
from xv.props.common import new_case, build_root, flush_contracts, ctxs

ID = "C10"
LEVEL = "exploration"
N_QUICK, N_THOROUGH = 20000, 500000
T_QUICK, T_THOROUGH = 70, 1500
FLOORS = {"histories": 1500, "steps": 20000, "full_rereads": 40000, "op:leaf": 8000, "op:whole": 2000, "op:ref": 800,
          "growths": 500, "via:handle": 3000, "via:view": 3000, "via:nested": 2000, "via:stale": 1000,
          "whole_from_xobject": 300, "values_with_shorter_strings": 1500, "leaf_from_string_object": 300,
          "nested_size_checks": 20000, "whole_from_ndarray": 300, "whole_from_array_of_other_class": 150}
RULE = ("random type AST x value x placement; history of <=30 steps over {set scalar/string leaf of fitting size (strings of "
        "any utf-8 length up to the one they were created with, given as str or as an xo.String object), set "
        "whole nested array/struct of equal shape (plain data or an xobject living elsewhere), set reference (null / "
        "plain data / object in the same buffer), allocate until the buffer grows} through the constructor handle, a "
        "root view, a fresh nested view or a stale nested view taken earlier; after EVERY step the whole root object "
        "and a neighbouring xobject are re-read and compared with the model, plus sizes. distinct = (name-erased AST, "
        "op-kind sequence prefix).")
ASSUMPTIONS = ["equal size = same shape for arrays, utf-8 length <= length at creation for strings, same null pattern not required for references"]


def run_case(w, rng):
    c = new_case(w, rng, roots=("st", "ar"))
    t, env = c.t, c.env
    seen = set()

    def viol(mech, msg, hist):
        if mech not in seen:
            seen.add(mech)
            info = dict(c.info)
            info["history"] = hist[-40:]
            w.violation(mech, msg, info)

    hist = []
    try:
        try:
            h = build_root(c, rng)
            # a neighbouring xobject with its own model
            nc = new_case(w, rng, depth=2, roots=("st", "ar"))
            nc.env.close()
            nc.env, nc.mode = env, None
            nh = build_root(nc, rng)
            env.repoison()
        except Exception as e:
            w.violation(f"construct-{exc_kind(e)}", f"{type(e).__name__}: {e}", c.info)
            return
        view = c.cls._from_buffer(env.buf, h._offset)
        size0 = int(h._get_size())
        # sizes of all nested compounds that are part of the root object itself (not behind a reference)
        sizes0 = {}
        for p_, l_, nt_, nv_ in nodes(t, c.mv, through_refs=False):
            if p_ and nt_["k"] in ("st", "ar"):
                sizes0[l_] = (p_, int(get_path(h, p_)._get_size()))
        mv = c.mv
        caps = c.mv  # the value tree each piece of storage was created from (string capacities)
        stale = []
        ops = []
        w.count("histories")
        for kk in kinds_in(t):
            w.seen(kk)
        nsteps = rng.randint(4, 30)
        for step in range(nsteps):
            r = rng.random()
            allnodes = [(p, l, nt, nv) for p, l, nt, nv in nodes(t, mv) if p]
            op = None
            if r < 0.08:
                op = "grow"
            elif r < 0.62:
                cand = [x for x in allnodes if x[2]["k"] in ("sc", "str")]
                op = "leaf"
            elif r < 0.85:
                cand = [x for x in allnodes if x[2]["k"] in ("st", "ar") and not _is_target(x[1]) and
                        (x[2]["k"] == "st" or 0 not in x[3].shape)]
                op = "whole"
            else:
                cand = [x for x in allnodes if x[2]["k"] in ("ref", "ur")]
                op = "ref"
            if op == "grow":
                g = env.force_growth()
                w.count("growths", g)
                hist.append(["grow", env.buf.capacity])
            else:
                if not cand:
                    continue
                p, l, nt, nv = rng.choice(cand)
                k = nt["k"]
                capv = get_model(t, caps, p)[1]
                if op == "ref":
                    newv = c.vg.value(nt)
                else:
                    # inside a whole assignment every reference is re-bound: the new value may null it or bind it anew
                    c.vg.renull = 0.3 if (op == "whole" and has_refs(nt)) else 0.0
                    newv = c.vg.same_shape(nt, nv, caps=capv)
                    c.vg.renull = 0.0
                    if _shorter(nt, newv, capv):
                        w.count("values_with_shorter_strings")
                arg = plain(nt, newv, rng, np_scalars=True)
                how = "plain"
                try:
                    if op == "leaf" and k == "str" and rng.random() < 0.25:
                        # an xo.String object (with its own, usually smaller, capacity) as the assigned value
                        arg = xo.String(arg, _buffer=rng.choice([None, env.buf]))
                        how = "string-object"
                        w.count("leaf_from_string_object")
                    if op == "whole" and k == "ar" and nt["it"]["k"] == "sc" and rng.random() < 0.4:
                        # a NumPy array in C / Fortran / strided layout, possibly of another numeric type
                        from xv.typegen import as_ndarray
                        arg = as_ndarray(nt, newv, layout=rng.choice(["c", "f", "strided"]))
                        how = "ndarray"
                        w.count("whole_from_ndarray")
                    elif op == "whole" and k == "ar" and nt["it"]["k"] == "sc" and 0 not in newv.shape and rng.random() < 0.25:
                        # an xobject array of ANOTHER class (other axis order / static extents) holding the new value
                        from xv.props.c01 import other_class_source
                        arg = other_class_source(nt, newv, rng, c.cache, env)
                        how = "xobject-of-other-class"
                        w.count("whole_from_array_of_other_class")
                    elif op == "whole" and rng.random() < 0.3:
                        ncls = build(nt, c.cache)
                        arg = ncls(arg, _buffer=rng.choice([None, env.buf]))
                        how = "xobject"
                        w.count("whole_from_xobject")
                        if k in ("ar", "st") and rng.random() < 0.4:
                            # ... seen through a view rebuilt from (buffer, offset)
                            arg = ncls._from_buffer(arg._buffer, arg._offset)
                            w.count("whole_from_rebuilt_view")
                    elif op == "ref" and newv is not None and rng.random() < 0.4:
                        tt = nt["to"] if k == "ref" else nt["m"][newv[0]]
                        arg = build(tt, c.cache)(plain(tt, newv if k == "ref" else newv[1], rng), _buffer=env.buf)
                        how = "same-buffer-object"
                    via = rng.choice(["handle", "view", "nested", "stale"])
                    if via == "stale":
                        usable = [(sp, so) for sp, so in stale if p[:len(sp)] == sp and len(sp) < len(p)]
                        if usable:
                            sp, so = rng.choice(usable)
                            base, sub = so, p[len(sp):]
                        else:
                            via = "nested"
                    if via == "nested":
                        if len(p) >= 2:
                            cut = rng.randint(1, len(p) - 1)
                            base, sub = get_path(rng.choice([h, view]), p[:cut]), p[cut:]
                            if base is not None and not isinstance(base, (str, np.generic)) and rng.random() < 0.5:
                                stale.append((p[:cut], base))
                        else:
                            via = "view"
                    if via == "handle":
                        base, sub = h, p
                    elif via == "view":
                        base, sub = view, p
                    set_path(base, sub, arg)
                except Exception as e:
                    viol(f"assign-{exc_kind(e)}|{op}|{k}|{how}", f"{l} via {via}: {type(e).__name__}: {e}", hist + [[op, l, repr(arg)[:120]]])
                    break
                w.count("op:" + op)
                w.count("via:" + via)
                hist.append([op, l, via, how, repr(arg)[:80]])
                mv = set_model(t, mv, p, newv)
                # reference targets created by COPYING an xobject keep the room of their text only (a copy need not
                # keep the spare capacity of strings created from a capacity)
                capnew = decap(nt, newv) if how in ("xobject", "xobject-of-other-class") else newv
                caps = set_model(t, caps, p, capnew if op == "ref" else merge_caps(nt, capv, capnew))
                ops.append(op[0] + k[0])
                if op == "ref" or (op == "whole" and has_refs(nt)):
                    # references at or below p were re-bound: views of the old referents are no longer part of the object
                    stale = [(sp, so) for sp, so in stale if sp[:len(p)] != p]
            w.count("steps")
            # ---- full re-read of everything
            bad = False
            for name, obj, tt, mm in (("handle", h, t, mv), ("view", view, t, mv), ("neighbour", nh, nc.t, nc.mv)):
                cm = compare(tt, mm, obj, full=(name != "view"))
                w.count("full_rereads")
                for path, kind, detail, sig in cm.errs[:3]:
                    viol(f"after-{hist[-1][0]}:{name}:{kind}|{sig}", f"{path}: {detail}", hist)
                    bad = True
            if int(h._get_size()) != size0 or int(view._get_size()) != size0:
                viol(f"after-{hist[-1][0]}:root-size-changed", f"{size0} -> {h._get_size()}", hist)
                bad = True
            if env.neighbours_intact():
                viol(f"after-{hist[-1][0]}:stamped-neighbour-damaged", str(env.neighbours_intact()), hist)
                bad = True
            if not bad:
                for l_, (p_, sz) in sizes0.items():
                    w.count("nested_size_checks")
                    now = int(get_path(view, p_)._get_size())
                    if now != sz:
                        viol(f"after-{hist[-1][0]}:nested-size-changed", f"{l_}: {sz} -> {now}", hist)
                        bad = True
                        break
            if bad:
                break
        w.case([shape_sig(t), "".join(ops[:10])], sample=dict(c.info, history=hist[:10]) if rng.random() < 0.004 else None,
               nontrivial=len(hist) >= 3)
    finally:
        env.close()
        flush_contracts(w, c.info)


def _shorter(t, newv, capv):
    k = t["k"]
    if k == "str":
        return len(newv.encode("utf8")) < len(capv.encode("utf8"))
    if k == "st":
        return any(_shorter(ft, newv[fn], capv[fn]) for fn, ft in t["f"])
    if k == "ar":
        return any(_shorter(t["it"], newv.items[i], capv.items[i]) for i in newv.items)
    return False


def _is_target(label):
    return label.endswith("->") or (label[-1].isdigit() and label[-3:-1] == "->")
