"""C11 — operations that cannot be honoured fail without side effects."""
import numpy as np

import xobjects as xo
from xv import bufmon
from xv.typegen import kinds_in, shape_sig, is_static, plain, build, AVal, max_fit, walk, _uid
from xv.model import compare, exc_kind, nodes, get_path, set_path, ar_sig
from xv.decoder import slot, plan_size
from xv.props.common import new_case, build_root, flush_contracts, ctxs

ID = "C11"
LEVEL = "exploration"
N_QUICK, N_THOROUGH = 90000, 2000000
T_QUICK, T_THOROUGH = 70, 1500
CLASSES = ["index-get", "index-set", "negative-index", "length", "shape", "int-length", "string-too-long",
           "bigger-items", "non-member", "wrong-context", "offset-no-buffer", "construct-shape", "struct-with-other-length",
           "struct-one-refused-field", "extra-dimensions", "mixed-bad-item", "sequence-for-scalar",
           "construct-refused-while-writing", "hybrid-array-other-length", "negative-length", "broadcastable-shape"]
FLOORS = {"attempts": 20000, "raised": 15000, "state_checks": 20000}
FLOORS.update({"class:" + c: 300 for c in CLASSES})
FLOORS["class:struct-with-other-length"] = 80
FLOORS["class:struct-one-refused-field"] = 80
FLOORS["class:mixed-bad-item"] = 100
FLOORS["class:construct-refused-while-writing"] = 200
FLOORS["hybrid_array_limited_view"] = 100
FLOORS["union_object_at_offset_without_buffer"] = 300
FLOORS["hybrid_move_or_copy_to_offset_without_buffer"] = 200
FLOORS["non_member_as_one_tuple"] = 100
FLOORS.update({"negative_index_assignments": 100, "non_member_from_same_family": 50, "allocations_after_refusal": 5000,
               "hybrid_copy_with_contradictory_destination": 300, "refused_construction_at_explicit_offset": 100})
FLOORS.update({"multibyte_too_long_strings": 300, "misuse_value_as_xobject": 300})
RULE = ("random type AST x value x placement with a neighbouring xobject; up to 8 misuse attempts per object, each at a "
        "random applicable element position, through handle or view: index outside shape (get/set, negative on "
        "static-item arrays), array update of different length / same count but different shape / integer length, "
        "string needing more slots than fixed at creation (struct field and array item), same-shape list with a "
        "larger dynamic item (as plain data or as an xobject of the same class), a struct instance/dict whose nested dynamic array has "
        "another length, too-long strings also as multi-byte text whose character count would fit, non-member object or type name to a union reference, buffer of another context, "
        "explicit offset without buffer, construction with a wrong static shape, a numeric array field of a dressed (hybrid) object assigned a sequence of another length (also with a limited exposed part); oracle: an exception is raised AND "
        "every previously live object re-reads equal to its model AND every previously live byte extent is unchanged. "
        "distinct = (name-erased AST, misuse class, position kind).")
ASSUMPTIONS = ["negative indices are out-of-range cases only on static-item arrays (dynamic-item arrays resolve them numpy-style)",
               "a too-long string is one whose utf-8 length + 1 exceeds the stored size - 8 at creation"]


_W = [None]


def run_case(w, rng):
    _W[0] = w
    c = new_case(w, rng, roots=("st", "ar"), modes=(None, "aligned", "packed"))
    t, env = c.t, c.env
    try:
        try:
            h = build_root(c, rng)
            nc = new_case(w, rng, depth=2, roots=("st", "ar"))
            nc.env.close()
            nc.env, nc.mode = env, None
            nh = build_root(nc, rng)
            env.repoison()
        except Exception as e:
            w.violation(f"construct-{exc_kind(e)}", f"{type(e).__name__}: {e}", c.info)
            return
        view = c.cls._from_buffer(env.buf, h._offset)
        for kk in kinds_in(t):
            w.seen(kk)
        seen = set()
        allnodes = list(nodes(t, c.mv))
        for attempt in range(rng.randint(3, 8)):
            cls_ = rng.choice(CLASSES)
            plan = _plan(cls_, rng, c, allnodes, env)
            if plan is None:
                continue
            pos, desc, fn = plan
            base = rng.choice([h, view])
            live = [(lo, hi) for lo, hi in env.fol.sh.live_intervals()]
            before = bufmon.raw_bytes(env.buf)
            raised = None
            try:
                fn(base)
            except Exception as e:
                raised = e
            w.count("attempts")
            w.count("class:" + cls_)
            info = dict(c.info, misuse=cls_, at=desc, via="handle" if base is h else "view")
            if raised is None:
                mech = f"no-exception:{cls_}|{pos}"
                if mech not in seen:
                    seen.add(mech)
                    w.violation(mech, f"{desc}: accepted silently", info)
            else:
                w.count("raised")
            # state must be unchanged whatever happened
            after = bufmon.raw_bytes(env.buf)
            ex = getattr(fn, "exempt", None)
            changed = [(lo, hi) for lo, hi in live if before[lo:hi] != after[lo:hi] and not (ex and ex[0] <= lo and hi <= ex[1])]
            bad = []
            for name, obj, tt, mm in (("object", h, t, c.mv), ("neighbour", nh, nc.t, nc.mv)):
                cm = compare(tt, mm, obj, full=False)
                bad += [(name,) + e for e in cm.errs[:2]]
            w.count("state_checks")
            if changed or bad or env.neighbours_intact():
                mech = f"state-changed:{cls_}|{pos}|{'raised' if raised is not None else 'silent'}"
                if mech not in seen:
                    seen.add(mech)
                    w.violation(mech, f"{desc}: live bytes changed {changed[:3]}; re-read diffs {bad[:2]}", info)
                break
            if raised is None:
                break
            # after a refused operation the buffer still is a sound allocator: new regions come from free space
            if rng.random() < 0.5:
                env.fol.not_free = []
                env.buf.allocate(rng.choice([8, 24, 64, 200]))
                env.repoison()
                w.count("allocations_after_refusal")
                if env.fol.not_free:
                    mech = f"allocation-after-refusal-overlaps-live-memory:{cls_}"
                    if mech not in seen:
                        seen.add(mech)
                        w.violation(mech, f"after {desc}: allocate returned {env.fol.not_free} which was not free", info)
                    break
        w.case([shape_sig(t)], sample=dict(c.info) if rng.random() < 0.003 else None, nontrivial=True)
    finally:
        env.close()
        flush_contracts(w, c.info)


_HY = []


def _hybrid():
    if not _HY:
        _HY.append(type("XvC11Hybrid", (xo.HybridClass,), {"_xofields": {"a": xo.Float64, "b": xo.Int64[:]}}))
    return _HY[0]


_HYA = {}


def _hybrid_arr(sn, limited):
    """Hybrid class with one numeric array field (exposed as a numpy-like view), optionally with the
    `_lim_arrays_name` attribute that exposes only the first `nused` items."""
    key = (sn, limited)
    if key not in _HYA:
        ns = {"_xofields": {"k": xo.Int32, "x": getattr(xo, sn)[:], "tail": xo.Int64}}
        if limited:
            ns["_lim_arrays_name"] = "nused"
        _HYA[key] = type(f"XvC11HyArr{sn}{'L' if limited else ''}", (xo.HybridClass,), ns)
    return _HYA[key]


def _index(cur, idx):
    for i in idx:
        cur = cur[i]
    return cur


def _setindex(cur, idx, val):
    for i in idx[:-1]:
        cur = cur[i]
    cur[idx[-1]] = val


def _poskind(path):
    if not path:
        return "root"
    return "field" if path[-1][0] == "f" else "item"


def _long_string(cur, rng, w=None):
    cap = max_fit(cur) + 1  # data bytes incl. NUL fixed at creation
    if rng.random() < 0.4:
        # multi-byte text: the character count (+1) would fit, the utf-8 bytes (+1) do not
        n = rng.randint(cap // 2, cap - 1)
        if w is not None:
            w.count("multibyte_too_long_strings")
        return "\u00e9" * n
    n = cap + rng.choice([0, 1, 7, 8, 20])
    return "L" * n


def _plan(cls_, rng, c, allnodes, env):
    """-> (position kind, description, callable(base)) or None if not applicable."""
    t, vg = c.t, c.vg
    arrays = [(p, l, nt, nv) for p, l, nt, nv in allnodes if nt["k"] == "ar"]
    # assigning at the path of a reference target re-binds the reference (legitimate): not a misuse position
    owned = [a for a in arrays if not (a[1].endswith("->") or (a[1][-1].isdigit() and a[1][-3:-1] == "->"))]
    if cls_ in ("index-get", "index-set", "negative-index"):
        cand = arrays if cls_ != "negative-index" else [a for a in arrays if is_static(a[2]["it"])]
        if not cand:
            return None
        p, l, nt, nv = rng.choice(cand)
        shape = nv.shape
        idx = [rng.randrange(s) if s > 0 else 0 for s in shape]
        k = rng.randrange(len(shape))
        if cls_ == "negative-index":
            idx[k] = rng.choice([-1, -shape[k] - 1, -2])
        else:
            idx[k] = shape[k] + rng.choice([0, 0, 1, 5])
        idx = tuple(idx)
        key = idx[0] if len(idx) == 1 and rng.random() < 0.5 else idx
        itv = plain(nt["it"], vg.value(nt["it"]), rng)

        setit = cls_ == "index-set" or (cls_ == "negative-index" and rng.random() < 0.5)
        if setit and cls_ == "negative-index":
            _W[0].count("negative_index_assignments")

        def fn(base, p=p, key=key):
            a = get_path(base, p)
            if setit:
                a[key] = itv
            else:
                a[key]
        return f"{ar_sig(nt)}", f"{l}[{key}] ({cls_}{', assignment' if setit else ''})", fn
    if cls_ == "broadcastable-shape":
        # a NumPy array of ANOTHER shape that numpy broadcasting would stretch to the array's shape (one item for
        # many, a row or a column for a matrix, a 0-d array): it is a value of another shape all the same
        from xv.typegen import DT
        cand = [a for a in owned if a[0] and a[2]["it"]["k"] == "sc" and 0 not in a[3].shape and int(np.prod(a[3].shape)) > 1]
        if not cand:
            return None
        p, l, nt, nv = rng.choice(cand)
        shape = tuple(nv.shape)
        opts = [(), (1,) * len(shape)]
        if len(shape) > 1:
            opts += [shape[1:], (1,) + shape[1:], shape[:-1] + (1,)]
        opts = [o for o in opts if tuple(o) != shape]
        bshape = rng.choice(opts)
        dt = rng.choice([DT[nt["it"]["t"]], np.dtype("float64"), np.dtype("int64")])
        newarg = (np.arange(int(np.prod(bshape)) if bshape else 1) + 3).astype(dt).reshape(bshape)

        def fn(base, p=p, newarg=newarg):
            set_path(base, p, newarg)
        return f"{_poskind(p)}|{ar_sig(nt)}", f"{l} (shape {list(shape)}) = ndarray of shape {list(bshape)} ({dt})", fn
    if cls_ in ("length", "shape", "int-length"):
        cand = [a for a in owned if a[0]]
        if cls_ == "shape":
            cand = [a for a in cand if len(a[3].shape) > 1 and len(set(a[3].shape)) > 1 and 0 not in a[3].shape]
        if not cand:
            return None
        p, l, nt, nv = rng.choice(cand)
        shape = list(nv.shape)
        if cls_ == "int-length":
            # an integer stands for the extent of the (single) dynamic dimension: anything but the current
            # extent is another shape
            dyn = [i for i, d in enumerate(nt["dims"]) if d is None]
            if len(dyn) != 1:
                return None
            ext = shape[dyn[0]]
            cnt = int(np.prod(shape))
            opts = [x for x in (ext + 1, ext + 2, ext - 1, cnt, cnt + 1) if x >= 0 and x != ext]
            n = rng.choice(opts)
            if n == cnt and len(shape) > 1:
                _W[0].count("int_length_equal_item_count")
            newarg = n
        else:
            if cls_ == "length":
                k = rng.randrange(len(shape))
                shape[k] = max(0, shape[k] + rng.choice([1, 2, -1])) if shape[k] > 0 else 1
                if len(shape) > 1 and 0 in shape:
                    return None
            else:
                i, j = rng.sample(range(len(shape)), 2)
                if shape[i] == shape[j]:
                    return None
                shape[i], shape[j] = shape[j], shape[i]
            newv = AVal(shape, {i: vg.value(nt["it"]) for i in np.ndindex(*shape)})
            newarg = plain(nt, newv, rng)

        def fn(base, p=p, newarg=newarg):
            set_path(base, p, newarg)
        return f"{_poskind(p)}|{ar_sig(nt)}", f"{l} = value of shape {shape if cls_ != 'int-length' else newarg}", fn
    if cls_ == "string-too-long":
        cand = [x for x in allnodes if x[2]["k"] == "str" and x[0]]
        if not cand:
            return None
        p, l, nt, nv = rng.choice(cand)
        s = _long_string(nv, rng, _W[0])

        def fn(base, p=p, s=s):
            set_path(base, p, s)
        return _poskind(p), f"{l} = string of {len(s.encode('utf8'))} bytes / {len(s)} chars (stored: {len(nv.encode('utf8'))})", fn
    if cls_ == "bigger-items":
        cand = [a for a in owned if a[0] and not is_static(a[2]["it"]) and a[3].items and a[2]["it"]["k"] in ("str", "ar", "st")]
        if not cand:
            return None
        p, l, nt, nv = rng.choice(cand)
        it = nt["it"]
        items = dict(nv.items)
        victim = rng.choice(sorted(items))
        big = _bigger(it, items[victim], vg, rng)
        if big is None or plan_size(it, big) <= plan_size(it, items[victim]):
            return None  # must really need more bytes than reserved at creation
        items[victim] = big
        newarg = plain(nt, AVal(nv.shape, items), rng)
        how = "plain data"
        if rng.random() < 0.4:
            newarg = build(nt, c.cache)(newarg, _buffer=rng.choice([env.buf, None]))
            env.repoison()
            how = "xobject of the same class"
            _W[0].count("misuse_value_as_xobject")

        def fn(base, p=p, newarg=newarg):
            set_path(base, p, newarg)
        return f"{it['k']}-items", f"{l} = same shape, item {victim} larger ({how})", fn
    if cls_ == "struct-with-other-length":
        # a struct-typed element assigned a value of the same class whose nested dynamic array has another length
        cand = []
        for p, l, nt, nv in allnodes:
            if nt["k"] == "st" and p and not (l.endswith("->") or (l[-1].isdigit() and l[-3:-1] == "->")):
                dyn = [(fn_, ft) for fn_, ft in nt["f"] if ft["k"] == "ar" and ft["dims"][0] is None and len(ft["dims"]) == 1
                       and nv[fn_].shape[0] > 0]
                if dyn:
                    cand.append((p, l, nt, nv, dyn))
        if not cand:
            return None
        p, l, nt, nv, dyn = rng.choice(cand)
        fn_, ft = rng.choice(dyn)
        n0 = nv[fn_].shape[0]
        n1 = rng.choice([n0 - 1, n0 - 1, n0 + 1, 0])
        newv = dict(vg.same_shape(nt, nv))
        newv[fn_] = AVal((n1,), {(i,): vg.value(ft["it"]) for i in range(n1)})
        newarg = plain(nt, newv, rng)
        how = "dict"
        if rng.random() < 0.6:
            newarg = build(nt, c.cache)(newarg, _buffer=rng.choice([env.buf, None]))
            env.repoison()
            how = "instance"
            _W[0].count("misuse_value_as_xobject")

        def fn(base, p=p, newarg=newarg):
            set_path(base, p, newarg)
        return _poskind(p), f"{l} = {how} of the same class with {fn_} of length {n1} instead of {n0}", fn
    if cls_ in ("extra-dimensions", "mixed-bad-item"):
        # whole-array values that are not of the array's shape although their leading extents match
        cand = [a for a in owned if a[0] and a[2]["it"]["k"] == "sc" and a[3].items]
        if not cand:
            return None
        p, l, nt, nv = rng.choice(cand)
        good = plain(nt, vg.same_shape(nt, nv), rng)
        if cls_ == "extra-dimensions":
            from xv.typegen import as_ndarray
            if rng.random() < 0.5:
                arr = as_ndarray(nt, vg.same_shape(nt, nv))
                newarg = np.stack([arr, arr + 1], axis=-1)  # shape + (2,)
                how = f"ndarray of shape {newarg.shape}"
            else:
                def deepen(x):
                    return [deepen(y) for y in x] if isinstance(x, list) else [x, x]
                newarg = deepen(good)
                how = "nested list with one more level (every number replaced by a pair)"
        else:
            if not isinstance(good, list) or len(nv.shape) != 1 or nv.shape[0] < 2:
                return None
            newarg = list(good)
            newarg[-1] = [newarg[-1], newarg[-1]]  # acceptable items first, then a pair where a number is expected
            how = "list whose last item is a pair"

        def fn(base, p=p, newarg=newarg):
            set_path(base, p, newarg)
        return _poskind(p), f"{l} (shape {list(nv.shape)}) = {how}", fn
    if cls_ == "sequence-for-scalar":
        cand = [x for x in allnodes if x[2]["k"] == "sc" and x[0]]
        if not cand:
            return None
        p, l, nt, nv = rng.choice(cand)
        v = nv.item()
        newarg = rng.choice([[v, v], (v, v, v), np.array([v, v], dtype=nv.dtype)])

        def fn(base, p=p, newarg=newarg):
            set_path(base, p, newarg)
        return _poskind(p), f"{l} = {type(newarg).__name__} of {len(newarg)} numbers where one number is expected", fn
    if cls_ == "struct-one-refused-field":
        cand = []
        for p, l, nt, nv in allnodes:
            if nt["k"] == "st" and p and len(nt["f"]) >= 2 and not (l.endswith("->") or (l[-1].isdigit() and l[-3:-1] == "->")):
                bad = [i for i, (fn_, ft) in enumerate(nt["f"]) if i > 0 and (ft["k"] == "str" or ft["k"] == "ur")]
                if bad:
                    cand.append((p, l, nt, nv, bad))
        if not cand:
            return None
        p, l, nt, nv, bad = rng.choice(cand)
        bi = rng.choice(bad)
        fnb, ftb = nt["f"][bi]
        newv = dict(plain(nt, vg.same_shape(nt, nv), rng))
        if ftb["k"] == "str":
            newv[fnb] = _long_string(nv[fnb], rng, _W[0])
            what = "a string that does not fit"
        else:
            newv[fnb] = ("NoSuchMember", {"zz": 1})
            what = "a type name that is not a member"

        def fn(base, p=p, newv=newv):
            set_path(base, p, newv)
        return _poskind(p), f"{l} = dict whose field {fnb} (#{bi}) is {what}; the fields before it are acceptable", fn
    if cls_ == "non-member":
        cand = [x for x in allnodes if x[2]["k"] == "ur" and x[0]]
        if not cand:
            return None
        p, l, nt, nv = rng.choice(cand)
        others = [n for n in walk(t) if n["k"] in ("st", "ar") and not any(n is m for m in nt["m"])
                  and not any(n["n"] == m["n"] for m in nt["m"])]
        r_ = rng.random()
        if others and r_ < 0.4:
            ot = rng.choice(others)
            try:
                val = build(ot, c.cache)(plain(ot, vg.value(ot), rng), _buffer=rng.choice([env.buf, None]))
            except Exception:
                return None
            env.repoison()
            d = f"object of class {ot['n']} (used elsewhere in the type, not a member of this union)"
            _W[0].count("non_member_from_same_family")
        elif r_ < 0.7:
            class Stranger(xo.Struct):
                zz = xo.Int64
            val = Stranger(zz=5, _buffer=rng.choice([env.buf, None]))
            d = "object of a non-member class"
        else:
            val = ("NoSuchMember", {"zz": 1})
            d = "(unknown type name, data)"

        if not (isinstance(val, tuple) and len(val) == 2) and rng.random() < 0.35:
            # the one-element tuple form (the form in which a union constructor hands its argument on)
            val = (val,)
            d += ", given as a 1-tuple"
            _W[0].count("non_member_as_one_tuple")

        def fn(base, p=p, val=val):
            set_path(base, p, val)
        return _poskind(p), f"{l} = {d}", fn
    arg = plain(t, c.mv, rng)
    if cls_ == "wrong-context" and rng.random() < 0.25:
        other = ctxs()[1].new_buffer(256)
        hy = _hybrid()(a=1.5, b=[1, 2, 3])

        def fn(base):
            hy.copy(_context=ctxs()[0], _buffer=other)
        _W[0].count("hybrid_copy_with_contradictory_destination")
        return "root", "hybrid.copy(_context=<context A>, _buffer=<buffer of context B>)", fn
    if cls_ == "hybrid-array-other-length":
        # a numeric array field of a dressed object, assigned a list / ndarray whose length is neither 1 (numpy
        # broadcasting) nor the length of what the field exposes
        sn = rng.choice(["Float64", "Int64", "Int32", "Float32", "UInt8", "Int16"])
        limited = rng.random() < 0.5
        n = rng.randint(3, 9)
        vals = [rng.randint(1, 100) for _ in range(n)]
        hy = _hybrid_arr(sn, limited)(k=7, x=vals, tail=-3, _buffer=env.buf)
        env.repoison()
        shown = n
        if limited:
            shown = rng.randint(2, n - 1)
            hy.nused = shown
            _W[0].count("hybrid_array_limited_view")
        m = rng.choice([x for x in range(2, n + 4) if x != shown])
        newv = [rng.randint(101, 120) for _ in range(m)]
        if rng.random() < 0.5:
            newv = np.array(newv, dtype=rng.choice(["int64", "float64"]))

        def fn(base):
            try:
                hy.x = newv
            finally:
                got = [int(v) for v in hy._xobject.x.to_nplike()]
                if got != vals or hy._xobject.k != 7 or hy._xobject.tail != -3:
                    raise AssertionError  # (the byte comparison of the live regions reports it)
        return "hybrid-field", f"hybrid.x = {type(newv).__name__} of {m} items (field has {n}, exposes {shown})", fn
    if cls_ == "wrong-context":
        other = ctxs()[1].new_buffer(256)

        def fn(base):
            c.cls(arg, _buffer=other, _context=ctxs()[0])
        return "root", "T(value, _buffer=<buffer of context B>, _context=<context A>)", fn
    if cls_ == "offset-no-buffer" and rng.random() < 0.25:
        # a dressed object asked to move / copy itself to an explicit offset, without saying in which buffer
        hy = _hybrid()(a=1.5, b=[1, 2, 3], _buffer=env.buf)
        env.repoison()
        off = rng.choice([0, 8, 24, int(hy._offset)])
        how = rng.choice(["move", "copy"])

        def fn(base):
            getattr(hy, how)(_offset=off)
        _W[0].count("hybrid_move_or_copy_to_offset_without_buffer")
        return "root", f"hybrid.{how}(_offset={off}) without buffer (the object lives at {int(hy._offset)})", fn
    if cls_ == "offset-no-buffer" and rng.random() < 0.4:
        # a union reference object built from an existing object, at an explicit offset, without a buffer
        U = type(f"XvU{t['n']}", (xo.UnionRef,), {"_reftypes": [c.cls]})
        tgt = c.cls(arg, _buffer=env.buf)
        env.repoison()
        off = rng.choice([int(tgt._offset), 0, 8])

        def fn(base):
            U(tgt, _offset=off)
        _W[0].count("union_object_at_offset_without_buffer")
        return "root", f"U(obj, _offset={off}) without buffer (obj lives at {int(tgt._offset)})", fn
    if cls_ == "offset-no-buffer":
        def fn(base):
            c.cls(arg, _offset=rng.choice([0, 8, 64]))
        return "root", "T(value, _offset=8) without buffer", fn
    if cls_ == "construct-refused-while-writing":
        # the value is accepted by the size planning and refused only while it is being written (a pair where a number
        # is expected, deep inside); the object is placed by the allocator or at an explicit offset inside a block the
        # caller reserved
        leaves = [(p, nt, nv) for p, l, nt, nv in nodes(t, c.mv, through_refs=False) if nt["k"] == "sc" and p]
        if not leaves:
            return None
        p, nt, nv = rng.choice(leaves)
        from xv.model import set_model

        class _Pair(list):
            pass
        bad = plain(t, c.mv, rng)
        # walk the plain value down to the leaf and replace it
        cur = bad
        for st in p[:-1]:
            cur = cur[st[1]] if st[0] == "f" else _index(cur, st[1])
        last = p[-1]
        v = nv.item()
        try:
            if last[0] == "f":
                cur[last[1]] = [v, v]
            else:
                _setindex(cur, last[1], [v, v])
        except Exception:
            return None
        kw = dict(_buffer=env.buf)
        where = "allocator-chosen offset"
        if rng.random() < 0.6:
            need = max(64, plan_size(t, c.mv) + 64)
            blk = env.buf.allocate(need)
            kw["_offset"] = blk + 8
            env.repoison()
            where = "explicit offset inside a reserved block"
            _W[0].count("refused_construction_at_explicit_offset")

        def fn(base):
            c.cls(bad, **kw)
        if "_offset" in kw:
            # the block reserved for the object that could not be built holds no existing object: whatever the failed
            # construction left there does not count
            fn.exempt = (blk, blk + need)
        return "root", f"T(value with a pair where a number is expected) at {where}", fn
    if cls_ == "negative-length":
        # an array (of statically sized items) created from a negative extent, as an object of its own in the buffer
        # of the existing objects or as the value given for an array field of a new struct
        it = rng.choice([xo.Float64, xo.Int8, xo.Int64, xo.UInt16])
        A = rng.choice([it[:], it[:, 2], it[3, :]])
        neg = rng.choice([-1, -1, -2, -7, np.int64(-1), np.int8(-3)])
        if rng.random() < 0.5:
            def fn(base):
                A(neg, _buffer=env.buf)
            return "root", f"{A.__name__}({neg!r}) in the buffer of the existing objects", fn
        S = type(f"XvNeg{next(_uid)}", (xo.Struct,), {"k": xo.Int64, "a": A, "z": xo.Int64})

        def fn(base):
            S(k=1, a=neg, z=2, _buffer=env.buf)
        return "field", f"S(k=1, a={neg!r}, z=2) with a: {A.__name__}", fn
    if cls_ == "construct-shape":
        cand = [n for n in [t] if n["k"] == "ar" and any(d is not None for d in n["dims"]) and 0 not in c.mv.shape]
        if not cand:
            return None
        shape = list(c.mv.shape)
        ks = [i for i, d in enumerate(t["dims"]) if d is not None]
        k = rng.choice(ks)
        shape[k] += rng.choice([1, 2])
        newv = AVal(shape, {i: vg.value(t["it"]) for i in np.ndindex(*shape)})
        newarg = plain(t, newv, rng)

        where = "allocator-chosen offset"
        kw = dict(_buffer=env.buf)
        if rng.random() < 0.5:
            need = max(64, plan_size(t, c.mv) + 64)
            kw["_offset"] = env.buf.allocate(need) + 8   # inside a block the caller reserved itself
            env.repoison()
            where = "explicit offset inside a reserved block"
            _W[0].count("refused_construction_at_explicit_offset")

        def fn(base):
            c.cls(newarg, **kw)
        return ar_sig(t), f"T(value of shape {shape}) for static dims {t['dims']} at {where}", fn
    return None


def _bigger(it, cur, vg, rng):
    k = it["k"]
    if k == "str":
        return _long_string(cur, rng)
    if k == "ar":
        dyn = [i for i, d in enumerate(it["dims"]) if d is None]
        if not dyn:
            return None
        shape = list(cur.shape)
        shape[rng.choice(dyn)] += rng.choice([1, 2, 4])
        if 0 in shape and len(shape) > 1:
            return None
        return AVal(shape, {i: vg.value(it["it"]) for i in np.ndindex(*shape)})
    if k == "st":
        out = dict(cur)
        for fn, ft in it["f"]:
            if not is_static(ft):
                b = _bigger(ft, cur[fn], vg, rng)
                if b is not None:
                    out[fn] = b
                    return out
        return None
    return None
