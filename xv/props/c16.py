"""C16 — vectorised kernel blocks run once per index on every target."""
import os
import shutil
import tempfile
from pathlib import Path

import numpy as np

import xobjects as xo
from xv import fakegpu
from xv.typegen import _uid

xo.general._print.suppress = True
fakegpu.install()

ID = "C16"
LEVEL = "exploration"
N_QUICK, N_THOROUGH = 1000, 16000
T_QUICK, T_THOROUGH = 80, 1500
TARGETS = ["cpu_serial", "cpu_openmp", "opencl", "cuda"]
BIT = {"cpu_serial": 1, "cpu_openmp": 2, "opencl": 4, "cuda": 8}
FLOORS = {"sources": 100, "kernel_calls": 2500, "hit_counters_checked": 100000, "n_zero_calls": 150,
          "n_not_multiple_of_block": 150, "multi_block_kernels": 20, "include_lines": 30, "context_lines": 100,
          "passthrough_lines_checked": 2000, "nested_block_cases": 8, "launch_geometries_seen": 100,
          "expression_limits": 60, "kernels_inside_included_file": 40,
          "signed_index_arithmetic_checked": 50000, "directives_after_a_comment": 60,
          "files_included_by_two_directives": 20, "targets_not_named_by_a_directive_with_missing_file": 60,
          "blocks_with_smaller_bound_checked": 200, "annotated_extra_headers_checked": 2000, "cuda_block_size_changed_between_calls": 40}
FLOORS.update({"target:" + t: 300 for t in TARGETS})
RULE = ("generated kernel sources from the annotation vocabulary (1-3 vectorize_over/end_vectorize blocks, "
        "limits that are identifiers or blank-free expressions, an earlier block possibly bounded by n/2 while the launch size is n, the whole kernel optionally inside an included file, an include directive for other targets whose file is missing, the CUDA block size lowered between two calls with the same n, "
        "only_for_context lines inside and outside blocks, include_file ... for_context with files in a temp folder, "
        "/*gpukern*/ /*gpufun*/ /*gpuglmem*/ /*restrict*/, unannotated marker lines) x n in {0,1,2,block-1,block,block+1,"
        "2*block+3,1000} x block size {1,2,7,256} x targets {cpu_serial, cpu_openmp ('auto' and 2 threads) through the "
        "real ContextCpu; opencl and cuda through the real ContextPyopencl/ContextCupy build_kernels and Kernel.__call__ "
        "against host-executing stand-ins, so the library's own grid/global-size code decides the geometry}; oracle: "
        "per-index hit counters == 1 on [0,n), guard zones untouched, context flags == exactly the running target's "
        "bits, included symbols only for named contexts, unannotated lines verbatim and in order, nested blocks raise. "
        "distinct = (structure of the source, target, n class, block).")
ASSUMPTIONS = ["what a real CUDA/OpenCL runtime does with an empty launch (n = 0) is not modelled: the stand-in runs zero work-items",
               "statements outside vectorised blocks run once per work-item on GPU targets, so the generated ones are idempotent"]

_S = {}
GUARD = 16


def setup(w):
    _S["tmp"] = tempfile.mkdtemp(prefix="xvc16_")
    _S["cpu"] = {"cpu_serial": [xo.ContextCpu()], "cpu_openmp": [xo.ContextCpu(omp_num_threads="auto"), xo.ContextCpu(omp_num_threads=2), xo.ContextCpu(omp_num_threads=1)]}
    for l in _S["cpu"].values():
        for c in l:
            c._compile_kernels_info = False


def teardown(w):
    shutil.rmtree(_S["tmp"], ignore_errors=True)
    fakegpu.cleanup()


def gen_source(rng, kname, folder, nested=False):
    """-> (text, meta) ; meta describes the expected behaviour."""
    nb = rng.choices([1, 2, 3], [5, 3, 2])[0]
    uid = kname
    L, passthru = [], []

    def plain(s):
        L.append(s)
        passthru.append(s)

    meta = dict(nblocks=nb, out_bits={t: 0 for t in TARGETS}, in_bits={t: 0 for t in TARGETS}, multi=[], incs=[])
    plain(f"#define XV_MARK_{uid} 1")
    L.append(f"/*gpufun*/ int helper_{uid}(int v){{ return v + 1; }}")
    nin = rng.randint(0, 2)
    for k in range(nin):
        ctxs = rng.sample(TARGETS, rng.randint(1, 3))
        fn = f"inc_{uid}_{k}.h"
        with open(os.path.join(folder, fn), "w") as f:
            f.write(f"#define XV_INC_{uid}_{k} {40 + k}\n/* from {fn} */\n")
        if len(ctxs) >= 2 and rng.random() < 0.4:
            # the same file named by two directives with different context lists
            cut = rng.randint(1, len(ctxs) - 1)
            L.append(f"//include_file {fn} for_context {' '.join(ctxs[:cut])}")
            L.append(f"//include_file {fn} for_context {' '.join(ctxs[cut:])}")
            meta["split_includes"] = meta.get("split_includes", 0) + 1
        else:
            L.append(f"//include_file {fn} for_context {' '.join(ctxs)}")
        meta["incs"].append((k, ctxs))
    meta["missing_for"] = []
    if rng.random() < 0.3:
        # a directive for some targets whose file does not exist (a device-only helper that is not installed here):
        # for the targets it does not name it is inert
        meta["missing_for"] = rng.sample(TARGETS, rng.randint(1, 3))
        L.append(f"//include_file missing_{uid}.h for_context {' '.join(meta['missing_for'])}")
    plain(f"/* unannotated comment {uid} a */")
    plain(f"/*unused*/ /*in*/ static const char XV_TAG_{uid}[] = \"/*hdr*/\"; /*out*/")
    L.append("/*gpukern*/")
    args = [f"/*gpuglmem*/ int32_t* /*restrict*/ hits{b}" for b in range(nb)]
    L.append(f"void {kname}({', '.join(args)}, /*gpuglmem*/ double* dv, /*gpuglmem*/ int32_t* flags, const int n, const int m1, const int m2){{")
    plain(f"  int unann_{uid} = 3; (void)unann_{uid};")
    plain(f"  flags[3] = (int)sizeof(XV_TAG_{uid});  /*oneword*/")

    def ctx_line(inside):
        r = rng.random()
        if r < 0.7:
            t = rng.choice(TARGETS)
            note = rng.choice(["", "", " // marker for the self test", " /* c */ // x"])
            if note:
                meta["commented_directives"] = meta.get("commented_directives", 0) + 1
            lead = rng.choice(["", "", "/* gpu */ ", "/*x*/ /* two words */ "])
            if lead:
                meta["commented_directives"] = meta.get("commented_directives", 0) + 1
            L.append(f"  {lead}flags[0] |= {BIT[t]};{note} //only_for_context {t}")
            meta["in_bits" if inside else "out_bits"][t] |= BIT[t]
        else:
            ts = rng.sample(TARGETS, 2)
            bit = 16 << len(meta["multi"])
            L.append(f"  flags[1] |= {bit}; //only_for_context {' '.join(ts)}")
            meta["multi"].append((bit, ts, inside))
        meta["nctx"] = meta.get("nctx", 0) + 1

    for _ in range(rng.randint(0, 2)):
        ctx_line(False)
    # a per-target configuration macro that arrives through `extra_headers` (one annotated #define per target)
    meta["headers"] = [f"#define XV_HDR_{uid} {BIT[t_]} //only_for_context {t_}" for t_ in TARGETS]
    # two instantiations of one "template" file (the same Path listed twice, re-parameterised by #define in between)
    plain(f"  flags[6] = tpla_{uid}() * 100 + tplb_{uid}();")
    plain(f"#ifdef XV_HDR_{uid}")
    plain(f"  flags[7] = XV_HDR_{uid};")
    plain("#endif")
    for k, ctxs in meta["incs"]:
        plain(f"#ifdef XV_INC_{uid}_{k}")
        plain(f"  flags[{4 + k}] = XV_INC_{uid}_{k};")
        plain("#endif")
    for b in range(nb):
        # the limit may be any expression without blanks; the caller passes m1 = n+1 and m2 = 2n or 2n+1,
        # so every form evaluates to n (the launch size the contexts derive from n_threads)
        lim = rng.choice(["n", "n", "m1-1", "m2/2", "(m1-1)", "n+m1-m1"])
        half = nb > 1 and b < nb - 1 and not nested and rng.random() < 0.3
        if half:
            # an earlier block with a smaller bound than a later one (the launch size is the larger bound n): on the
            # CPU targets and, through its guard, on CUDA its body runs for the indices below n/2 only
            lim = rng.choice(["n/2", "(m1-1)/2"])
            meta.setdefault("half", []).append(b)
        if lim != "n":
            meta["expr_limits"] = meta.get("expr_limits", 0) + 1
        L.append(f"  int ii{b}; //vectorize_over ii{b} {lim}")
        plain(f"    hits{b}[ii{b}] += helper_{uid}(0); /* body {uid} {b} */")
        if b == 0:
            # the index takes part in signed arithmetic (a centred coordinate): same result on every target
            plain(f"    dv[ii{b}] = (ii{b} - 5) * 0.5 + (ii{b} - n / 2 < 0 ? -1000.0 : 0.0);")
        for _ in range(0 if half else rng.randint(0, 2)):
            ctx_line(True)
        if nested and b == 0:
            L.append(f"  int jj; //vectorize_over jj n")
            L.append(f"    flags[2] += 1;")
            L.append(f"  //end_vectorize")
        L.append("  //end_vectorize")
        if rng.random() < 0.5:
            plain(f"  /* between blocks {uid} {b} */")
        if rng.random() < 0.3:
            ctx_line(False)
    plain("}")
    plain(f"/* trailer {uid} */")
    meta["passthru"] = passthru
    meta["kernel_in_include"] = False
    if rng.random() < 0.3:
        # the whole kernel (vectorised blocks, context-restricted lines) lives in an included file
        i0 = L.index("/*gpukern*/")
        i1 = max(i for i, l in enumerate(L) if l == "}")
        fn = f"kern_{uid}.h"
        with open(os.path.join(folder, fn), "w") as f:
            f.write("\n".join(L[i0:i1 + 1]) + "\n")
        L[i0:i1 + 1] = [f"//include_file {fn} for_context {' '.join(rng.sample(TARGETS, 4))}"]
        meta["kernel_in_include"] = True
    return "\n".join(L) + "\n", meta


def kernel_desc(kname, nb):
    args = [xo.Arg(xo.Int32, pointer=True, name=f"hits{b}") for b in range(nb)]
    args += [xo.Arg(xo.Float64, pointer=True, name="dv"),
             xo.Arg(xo.Int32, pointer=True, name="flags"), xo.Arg(xo.Int32, name="n"), xo.Arg(xo.Int32, name="m1"),
             xo.Arg(xo.Int32, name="m2")]
    return {kname: xo.Kernel(args=args, n_threads="n")}


def run_case(w, rng):
    uid = f"k{next(_uid)}_{os.getpid()}"
    folder = tempfile.mkdtemp(dir=_S["tmp"])
    nested = rng.random() < 0.12
    text, meta = gen_source(rng, uid, folder, nested)
    srcfile = Path(folder) / f"{uid}.h"
    srcfile.write_text(text)
    tpl = Path(folder) / f"tpl_{uid}.h"
    tpl.write_text("/*gpufun*/ int XV_T_NAME(void){ return XV_T_VAL; }\n")
    all_sources = [f"#define XV_T_NAME tpla_{uid}\n#define XV_T_VAL 11\n", tpl,
                   f"#undef XV_T_NAME\n#undef XV_T_VAL\n#define XV_T_NAME tplb_{uid}\n#define XV_T_VAL 22\n", tpl, srcfile]
    block = rng.choice([1, 2, 7, 256])
    info = dict(source=text, block=block, nested=nested)
    seen = set()

    def viol(mech, msg):
        if mech not in seen:
            seen.add(mech)
            w.violation(mech, msg, info)

    w.count("sources")
    if meta["nblocks"] > 1:
        w.count("multi_block_kernels")
    w.count("include_lines", len(meta["incs"]))
    w.count("context_lines", meta.get("nctx", 0))
    w.count("expression_limits", meta.get("expr_limits", 0))
    w.count("directives_after_a_comment", meta.get("commented_directives", 0))
    w.count("files_included_by_two_directives", meta.get("split_includes", 0))
    w.count("kernels_inside_included_file", int(meta["kernel_in_include"]))
    nvals = sorted({0, 1, 2, max(block - 1, 0), block, block + 1, 2 * block + 3, 1000})
    try:
        for target in TARGETS:
            if target in meta["missing_for"]:
                w.count("targets_named_by_a_directive_with_missing_file")
                continue  # the file is needed there and does not exist: nothing to run
            if meta["missing_for"]:
                w.count("targets_not_named_by_a_directive_with_missing_file")
            # ---- build through the real context
            try:
                if target.startswith("cpu"):
                    ctx = rng.choice(_S["cpu"][target])
                    ctx.add_kernels(sources=list(all_sources), kernels=kernel_desc(uid, meta["nblocks"]), extra_headers=list(meta["headers"]),
                                    extra_compile_args=("-O0", "-w"), extra_link_args=())
                    spec = ctx.kernels[uid].specialized_source
                elif target == "cuda":
                    ctx = xo.ContextCupy(default_block_size=block)
                    ctx.add_kernels(sources=list(all_sources), kernels=kernel_desc(uid, meta["nblocks"]), extra_headers=list(meta["headers"]))
                    spec = fakegpu.recorded[-1][1]
                else:
                    ctx = xo.ContextPyopencl(patch_pyopencl_array=False, minimum_alignment=1)
                    ctx.add_kernels(sources=list(all_sources), kernels=kernel_desc(uid, meta["nblocks"]), extra_headers=list(meta["headers"]))
                    spec = fakegpu.recorded[-1][1]
                built = True
            except Exception as e:
                built = False
                if nested and isinstance(e, ValueError):
                    w.count("nested_block_cases")
                    continue
                viol(f"build-failed|{target}|{type(e).__name__}", f"{str(e)[-1200:]}")
                continue
            if nested:
                viol(f"nested-blocks-accepted|{target}", "a vectorize_over inside an open block did not raise")
                continue
            # ---- unannotated text passes through verbatim, in order
            pos = 0
            for line in meta["passthru"]:
                w.count("passthrough_lines_checked")
                j = spec.find(line, pos)
                if j < 0:
                    viol(f"unannotated-text-changed|{target}", f"line {line!r} not found (in order) in the specialised source")
                    break
                pos = j + len(line)
            # ---- run
            for n in nvals:
                hits = [np.zeros(n + GUARD, dtype=np.int32) for _ in range(meta["nblocks"])]
                flags = np.zeros(8, dtype=np.int32)
                kw = {"n": n, "m1": n + 1, "m2": 2 * n + rng.choice([0, 1])}
                for b, hh in enumerate(hits):
                    kw[f"hits{b}"] = _wrap(target, hh)
                kw["flags"] = _wrap(target, flags)
                dv = np.full(n + GUARD, 7777.0)
                kw["dv"] = _wrap(target, dv)
                g0 = len(fakegpu.launch_log)
                try:
                    ctx.kernels[uid](**kw)
                except Exception as e:
                    viol(f"call-failed|{target}|{type(e).__name__}", f"n={n}: {str(e)[-800:]}")
                    break
                w.count("kernel_calls")
                w.count("target:" + target)
                if n == 0:
                    w.count("n_zero_calls")
                if n % block:
                    w.count("n_not_multiple_of_block")
                if len(fakegpu.launch_log) > g0:
                    w.count("launch_geometries_seen")
                    geo = fakegpu.launch_log[-1][2]
                    if target == "cuda" and not (geo[1] == block and geo[0] * geo[1] >= n and (geo[0] - 1) * geo[1] < max(n, 1)):
                        viol("cuda-launch-geometry", f"n={n} block={block}: grid {geo}")
                    if target == "opencl" and geo[0] != n:
                        viol("opencl-launch-geometry", f"n={n}: global size {geo}")
                case = f"n={n} block={block}"
                _check_hits(w, viol, meta, target, case, n, hits)
                ii = np.arange(n)
                want_dv = (ii - 5) * 0.5 + np.where(ii - n // 2 < 0, -1000.0, 0.0)
                if 0 in meta.get("half", []) and target != "opencl":
                    want_dv[n // 2:] = 7777.0
                w.count("signed_index_arithmetic_checked", n)
                if not np.array_equal(dv[:n], want_dv) or np.any(dv[n:] != 7777.0):
                    badi = int(np.nonzero(dv[:n] != want_dv)[0][0]) if n and np.any(dv[:n] != want_dv) else n
                    viol(f"index-arithmetic-differs|{target}", f"{case}: dv[{badi}] = {dv[badi]!r}, expected {(want_dv[badi] if badi < n else 7777.0)!r}")
                ran = target.startswith("cpu") or n > 0
                want0 = (meta["out_bits"][target] if ran else 0) | (meta["in_bits"][target] if n > 0 else 0)
                if int(flags[0]) != want0:
                    viol(f"context-restricted-line-wrong|{target}", f"{case}: flags {int(flags[0])}, lines for this context give {want0}")
                want1 = 0
                for bit, ts, inside in meta["multi"]:
                    if target in ts and (n > 0 if inside else ran):
                        want1 |= bit
                if int(flags[1]) != want1:
                    viol(f"multi-context-line-wrong|{target}", f"{case}: flags[1] {int(flags[1])}, expected {want1}")
                if ran and int(flags[3]) != 8:
                    viol(f"unannotated-text-changed-meaning|{target}", f"{case}: sizeof of a string literal holding a one-word block comment is {int(flags[3])}, not 8")
                if ran and int(flags[6]) != 1122:
                    viol(f"source-listed-twice-not-read-twice|{target}", f"{case}: two instantiations of one template file give {int(flags[6])}, expected 1122")
                w.count("annotated_extra_headers_checked")
                if int(flags[7]) != (BIT[target] if ran else 0):
                    viol(f"annotated-extra-header-wrong|{target}", f"{case}: the macro defined per target in extra_headers is {int(flags[7])}, expected {BIT[target] if ran else 0}")
                for k, ctxs in meta["incs"]:
                    wantk = (40 + k) if (target in ctxs and ran) else 0
                    if int(flags[4 + k]) != wantk:
                        viol(f"include-file-context-wrong|{target}", f"{case}: include {k} for {ctxs}: flag {int(flags[4 + k])}, expected {wantk}")
            if target == "cuda" and block > 1 and not seen:
                # the documented per-kernel knob: the block size is lowered between two calls with the same n
                k = ctx.kernels[uid]
                n = rng.choice([block + 1, 2 * block + 3, 1000])
                for bs in (block, rng.choice([1, max(1, block // 2), block - 1])):
                    k.block_size = bs
                    hits = [np.zeros(n + GUARD, dtype=np.int32) for _ in range(meta["nblocks"])]
                    kw = {"n": n, "m1": n + 1, "m2": 2 * n, "flags": _wrap(target, np.zeros(8, dtype=np.int32)),
                          "dv": _wrap(target, np.full(n + GUARD, 7777.0))}
                    for b, hh in enumerate(hits):
                        kw[f"hits{b}"] = _wrap(target, hh)
                    try:
                        k(**kw)
                    except Exception as e:
                        viol(f"call-failed|{target}|{type(e).__name__}", f"n={n} block size {bs}: {str(e)[-800:]}")
                        break
                    w.count("kernel_calls")
                    _check_hits(w, viol, meta, target, f"n={n} block size changed from {block} to {bs}", n, hits)
                w.count("cuda_block_size_changed_between_calls")
            w.case([meta["nblocks"], len(meta["incs"]), meta.get("nctx", 0), target, block], None)
        w.case(["source", meta["nblocks"], len(meta["incs"]), nested, block],
               sample=dict(source=text, block=block, n=nvals) if rng.random() < 0.1 else None)
    finally:
        shutil.rmtree(folder, ignore_errors=True)


def _check_hits(w, viol, meta, target, case, n, hits):
    for b, hh in enumerate(hits):
        # an earlier block may have the smaller bound n/2; OpenCL has no guard: every work-item of the launch runs it
        nb_ = n // 2 if (b in meta.get("half", []) and target != "opencl") else n
        if nb_ != n:
            w.count("blocks_with_smaller_bound_checked")
        w.count("hit_counters_checked", n)
        if nb_ and not np.all(hh[:nb_] == 1):
            bad = np.nonzero(hh[:nb_] != 1)[0]
            viol(f"block-body-not-once-per-index|{target}", f"{case}: block {b} (bound {nb_}) index {int(bad[0])} executed {int(hh[bad[0]])} times ({len(bad)} indices wrong)")
        if np.any(hh[nb_:] != 0):
            viol(f"block-body-ran-past-n|{target}", f"{case}: block {b} touched indices >= its bound {nb_}: {np.nonzero(hh[nb_:])[0][:4] + nb_}")


def _wrap(target, arr):
    if target == "cuda":
        return arr.view(fakegpu.FakeCupyArray)
    if target == "opencl":
        return fakegpu.FakeClArray(arr)
    return arr
