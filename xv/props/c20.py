"""C20 — pickled objects come back usable, equal, and sharing what they shared."""
import pickle
import traceback

import numpy as np

import xobjects as xo
from xv import bufmon
from xv.typegen import TypeGen, ValGen, build, plain, kinds_in, shape_sig, model_json, walk
from xv.model import Env, compare, exc_kind, nodes, set_path, set_model
from xv.hybridgen import (gen_family, ValGenH, to_kwargs, compare_h, copy_model, spec_sig, register, GEN, MODNAME)
from xv.props.common import ctxs, flush_contracts

ID = "C20"
LEVEL = "exploration"
N_QUICK, N_THOROUGH = 16000, 600000
T_QUICK, T_THOROUGH = 70, 1500
FLOORS = {"groups": 3000, "objects_unpickled": 8000, "kind:struct": 1500, "kind:array": 1500, "kind:hybrid": 1500,
          "structs_with_2plus_dynamic_fields": 400, "pairs_sharing_checked": 4000, "pairs_shared": 1000,
          "pairs_not_shared": 1000, "writes_on_copy": 5000, "writes_on_original": 2000,
          "allocator_walk_steps": 10000, "new_objects_in_unpickled_buffer": 2000, "reads": 100000,
          "buffers_with_holes": 500, "kindbuf:bytearray": 500, "alias_handles_checked": 1500, "kernel_calls_on_unpickled_objects": 60, "kernels_built_on_demand_by_unpickled_objects": 15, "cross_process_unpickles": 16}
RULE = ("groups of 1-4 objects (generated importable Struct / Array-subclass types with strings, nested arrays, "
        "references; generated HybridClass families) spread over 1-3 buffers of both CPU kinds with live neighbours, "
        "freed holes and growth history; pickle.loads(pickle.dumps(group, protocol 0..5)); oracle: every object "
        "re-read through every accessor == model; further handles into the same object (nested part, bare xobject, field "
        "view) pickled along still denote the unpickled object; (a shares buffer with b) before == after, never the original "
        "buffer; writes to leaves of the copy read back and do not reach the original and vice versa; a walk of allocate/free/construct on each "
        "unpickled buffer yields in-bounds, aligned, pairwise disjoint regions that keep their stamps and leave "
        "every unpickled object's value intact. distinct = (object kinds and shapes, buffer assignment).")
ASSUMPTIONS = ["a reference-to-hybrid attribute of an unpickled object may be the bare xobject",
               "classes are registered in a real module object so that pickle can import them"]


def tb(e):
    return "".join(traceback.format_exception(e))[-1500:]


def reg_all(cache):
    for n, cls in cache.items():
        cls.__module__ = MODNAME
        cls.__qualname__ = cls.__name__
        setattr(GEN, cls.__name__, cls)


class Item:
    pass


def make_item(w, rng, envs):
    it = Item()
    it.env = rng.choice(envs)
    r = rng.random()
    if r < 0.36:
        it.kind = "hybrid"
        specs, outer = gen_family(rng, levels=rng.choice([0, 1, 1, 2]), refs=True, defaults=rng.random() < 0.3)
        it.spec, it.specs = outer, specs
        it.vg = ValGenH(rng)
        it.mv = it.vg.value(outer)
        it.table = {}
        it.obj = outer["cls"](**to_kwargs(outer, it.mv, rng, _buffer=it.env.buf))

        def bind(spec, m, o):
            for xn, pn, kind, sub, dflt in spec["fields"]:
                if kind == "ref" and rng.random() < 0.6:
                    tmv = it.vg.value(sub)
                    tgt = sub["cls"](**to_kwargs(sub, tmv, rng, _buffer=o._buffer))
                    setattr(o, pn, tgt)
                    i = len(it.table) + 1
                    it.table[i] = (sub, tmv)
                    m[xn] = i
                elif kind == "nested":
                    bind(sub, m[xn], getattr(o, pn))
        bind(outer, it.mv, it.obj)
        it.sig = ["hy", [spec_sig(s) for s in specs]]
        it.info = dict(kind="hybrid", family=[(s["name"], spec_sig(s)) for s in specs])
    else:
        depth = rng.choice([1, 2, 2, 3])
        tg = TypeGen(rng, max_depth=depth, anon=0.0)  # automatically named array classes are not importable: outside the property
        it.t = tg.root(allow=("st",) if r < 0.68 else ("ar",))
        it.kind = "struct" if it.t["k"] == "st" else "array"
        cache = {}
        it.cls = build(it.t, cache)
        reg_all(cache)
        it.vg = ValGen(rng)
        it.mv = it.vg.value(it.t)
        it.obj = it.cls(plain(it.t, it.mv, rng), _buffer=it.env.buf)
        it.sig = [it.kind, shape_sig(it.t)]
        it.info = dict(kind=it.kind, type=it.t, value=model_json(it.t, it.mv))
        if it.kind == "struct":
            from xv.typegen import is_static
            if sum(1 for f in it.t["f"] if not is_static(f[1])) >= 2:
                w.count("structs_with_2plus_dynamic_fields")
    w.count("kind:" + it.kind)
    return it


def alias_handles(w, rng, it):
    """Further handles into the SAME object (a nested part, the bare xobject, a field view): pickled together with
    the object they must come back as handles into the same unpickled object."""
    out = []
    if it.kind == "hybrid":
        r = rng.random()
        if r < 0.4:
            out.append(("xobject", it.obj._xobject, lambda root: root._xobject))
        nested = [(xn, pn) for xn, pn, kind, sub, d in it.spec["fields"] if kind == "nested"]
        if nested and r > 0.2:
            xn, pn = rng.choice(nested)
            out.append((f"nested:{pn}", getattr(it.obj, pn), lambda root, pn=pn: getattr(root, pn)))
    elif it.kind == "struct":
        comp = [fn for fn, ft in it.t["f"] if ft["k"] in ("st", "ar")]
        if comp:
            fn = rng.choice(comp)
            out.append((f"field:{fn}", getattr(it.obj, fn), lambda root, fn=fn: getattr(root, fn)))
    for name, h, _ in out:
        w.count("alias_handles_pickled")
    return out


def check_item(it, obj, mv=None):
    """-> list of (kind, detail) mismatches of obj against the model."""
    mv = it.mv if mv is None else mv
    if it.kind == "hybrid":
        return [(k, f"{p}: {d}") for p, k, d in compare_h(it.spec, mv, obj, lambda i: it.table[i])], 0
    cm = compare(it.t, mv, obj)
    return [(f"{k}|{s}", f"{p}: {d}") for p, k, d, s in cm.errs], cm.reads


def chunks_of(buf):
    if not hasattr(buf, "chunks"):
        return None
    return [(int(c.start), int(c.end)) for c in buf.chunks if c.end > c.start]


def setup(w):
    """Once per worker: a pickle written here is read by ANOTHER interpreter started with another hash seed."""
    import json
    import os
    import subprocess
    import sys
    from xv import REPO, VERIF_DIR, DEPS
    from xv import pickle_fixtures as fx
    for k in range(2):
        objs, vals = fx.make(1000 * w.shard + k)
        proto = [2, 4, 5, 0][(w.shard + k) % 4]
        path = os.path.abspath(f"xproc_{k}.pkl")
        with open(path, "wb") as f:
            pickle.dump(objs, f, protocol=proto)
        env = dict(os.environ, PYTHONPATH=os.pathsep.join([REPO, VERIF_DIR, DEPS]), PYTHONHASHSEED=str(101 + 7 * w.shard + k))
        r = subprocess.run([sys.executable, "-m", "xv.pickle_fixtures", path], env=env, capture_output=True, text=True, timeout=300)
        w.count("cross_process_unpickles")
        line = [l for l in r.stdout.splitlines() if l.startswith("XVJSON")]
        info = dict(cross_process=True, protocol=proto, seed=1000 * w.shard + k)
        if r.returncode != 0 or not line:
            w.violation("cross-process-unpickle-failed", (r.stderr or r.stdout)[-1200:], info)
            continue
        got = json.loads(line[0][6:])
        after = got.pop("after")
        want = json.loads(json.dumps(vals))
        if got != want:
            w.violation("cross-process-unpickled-values-differ", f"read {got!r:.500} expected {want!r:.500}", info)
        elif after[:2] != [77, 1.0] or after[2] is not True:
            w.violation("cross-process-unpickled-object-not-usable", f"{after}", info)


def run_case(w, rng):
    nb = rng.choice([1, 1, 2, 2, 3])
    envs = []
    for i in range(nb):
        envs.append(Env(rng, ctx=ctxs()[rng.randrange(2)], poison=rng.random() < 0.7))
    info = dict(buffers=[e.placement() for e in envs])
    seen = set()

    def viol(mech, msg):
        if mech not in seen:
            seen.add(mech)
            w.violation(mech, msg, info)

    try:
        items = []
        try:
            for _ in range(rng.choice([1, 2, 2, 3, 4])):
                items.append(make_item(w, rng, envs))
                if rng.random() < 0.2:
                    items[-1].env.force_growth()
                if rng.random() < 0.3:
                    e = items[-1].env
                    o = e.buf.allocate(rng.choice([8, 24, 40]))
                    e.add_neighbour()
                    e.buf.free(o, 8)
        except Exception as e:
            w.violation(f"construct-{exc_kind(e)}", tb(e), info)
            return
        info["items"] = [dict(it.info, buffer=envs.index(it.env)) for it in items]
        for e in envs:
            e.repoison()
            if len(chunks_of(e.buf) or []) > 1:
                w.count("buffers_with_holes")
            w.count("kindbuf:" + e.kind)
        for it in items:
            errs, _ = check_item(it, it.obj)
            if errs:
                w.count("skipped_construct_mismatch")
                return
        # a compiled setter kernel is called on an object before pickling and on its unpickled copy afterwards
        kern = None
        if rng.random() < 0.04:
            cand = [(i, it) for i, it in enumerate(items) if it.kind == "struct" and any(ft["k"] == "sc" for fn, ft in it.t["f"])]
            if cand:
                ki, kit = rng.choice(cand)
                kfn, kft = rng.choice([(fn, ft) for fn, ft in kit.t["f"] if ft["k"] == "sc"])
                try:
                    ondemand = rng.random() < 0.5
                    if ondemand:
                        # the class brings its kernels and every object builds them when first needed, in the context
                        # it lives in: `obj.compile_kernels(only_if_needed=True)`; the unpickled copy does the same
                        kname = f"{kit.t['n']}_set_{kfn}"
                        kit.cls._kernels = {kname: kit.cls._gen_kernels()[kname]}
                        kctx = kit.obj._buffer.context
                        kctx._compile_kernels_info = False
                        kit.obj.compile_kernels(only_if_needed=True)
                    else:
                        kctx = kit.obj._buffer.context if rng.random() < 0.6 else xo.ContextCpu()
                        kctx._compile_kernels_info = False
                        kctx.add_kernels(kernels=kit.cls._gen_kernels(), extra_compile_args=("-O0", "-w"), extra_link_args=())
                    v0 = kit.vg.scalar(kft["t"])
                    kctx.kernels[f"{kit.t['n']}_set_{kfn}"](obj=kit.obj, value=v0.item())
                    kit.mv = dict(kit.mv)
                    kit.mv[kfn] = v0
                    kern = (ki, kit, kfn, kft, kctx, ondemand)
                except Exception as e:
                    viol(f"kernel-before-pickling-{type(e).__name__}", tb(e))
                    return
        before = [bufmon.raw_bytes(e.buf) for e in envs]
        aliases = []  # (item index, name, original handle, getter)
        for i, it in enumerate(items):
            if rng.random() < 0.5:
                for name, h_, getter in alias_handles(w, rng, it):
                    aliases.append((i, name, h_, getter))
        proto = rng.choice([0, 1, 2, 3, 4, 5, pickle.HIGHEST_PROTOCOL])
        form = rng.choice(["list", "list", "dict", "one-by-one-same-pickler"])
        try:
            payload = [it.obj for it in items] + [a[2] for a in aliases]
            if rng.random() < 0.5:
                payload = [a[2] for a in aliases] + [it.obj for it in items]  # the handles first
                shift = len(aliases)
            else:
                shift = 0
            if form == "list":
                allnew = pickle.loads(pickle.dumps(payload, protocol=proto))
            elif form == "dict":
                d = pickle.loads(pickle.dumps({i: o for i, o in enumerate(payload)}, protocol=proto))
                allnew = [d[i] for i in range(len(payload))]
            else:
                allnew = list(pickle.loads(pickle.dumps(tuple(payload), protocol=proto)))
            if shift:
                new_alias, new = allnew[:shift], allnew[shift:]
            else:
                new, new_alias = allnew[:len(items)], allnew[len(items):]
        except Exception as e:
            viol(f"pickle-{exc_kind(e)}", tb(e))
            return
        w.count("groups")
        for e, b in zip(envs, before):
            if bufmon.raw_bytes(e.buf) != b:
                viol("pickling-modified-the-original-buffer", "")
        # ---- 1. equal value
        for it, n in zip(items, new):
            w.count("objects_unpickled")
            if type(n) is not type(it.obj):
                viol("unpickled-type-differs", f"{type(n).__name__} vs {type(it.obj).__name__}")
                return
            try:
                errs, reads = check_item(it, n)
            except Exception as e:
                viol(f"read-{exc_kind(e)}|{it.kind}", tb(e))
                return
            w.count("reads", reads + 5)
            for k, d in errs[:2]:
                viol(f"unpickled-differs:{k}|{it.kind}", d)
        if seen:
            return
        # ---- 1b. handles into an object still denote that (unpickled) object
        for (i, name, h_, getter), na in zip(aliases, new_alias):
            root = new[i]
            xr = root._xobject if hasattr(root, "_xobject") else root
            xa = na._xobject if hasattr(na, "_xobject") else na
            xo_ = items[i].obj._xobject if hasattr(items[i].obj, "_xobject") else items[i].obj
            xh = h_._xobject if hasattr(h_, "_xobject") else h_
            w.count("alias_handles_checked")
            if xa._buffer is not xr._buffer:
                viol("handle-into-object-unpickled-into-another-buffer", f"{name} of item {i} ({items[i].kind})")
            elif int(xa._offset) - int(xr._offset) != int(xh._offset) - int(xo_._offset):
                viol("handle-into-object-unpickled-at-another-place", f"{name} of item {i}: offset delta "
                     f"{int(xa._offset) - int(xr._offset)} instead of {int(xh._offset) - int(xo_._offset)}")
        if seen:
            return
        # ---- 2. sharing
        for i in range(len(items)):
            if new[i]._buffer is items[i].obj._buffer:
                viol("unpickled-object-uses-the-original-buffer", "")
            for j in range(i + 1, len(items)):
                w.count("pairs_sharing_checked")
                sh0 = items[i].obj._buffer is items[j].obj._buffer
                sh1 = new[i]._buffer is new[j]._buffer
                w.count("pairs_shared" if sh0 else "pairs_not_shared")
                if sh0 != sh1:
                    viol("sharing-lost" if sh0 else "sharing-invented", f"objects {i},{j}: shared before={sh0}, after={sh1}")
        if seen:
            return
        nbufs = {}
        for it, n in zip(items, new):
            nbufs.setdefault(id(n._buffer), (n._buffer, it.env))
        for nbuf, env in nbufs.values():
            # free space, capacity and free-list shape need not survive pickling; every live region must
            ra, rb = bufmon.raw_bytes(nbuf), bufmon.raw_bytes(env.buf)
            for lo, hi in env.fol.sh.live_intervals():
                if hi > len(ra) or ra[lo:hi] != rb[lo:hi]:
                    # objects may also be relocated by an implementation; the value comparison above is the judge.
                    w.count("live_region_bytes_differ_after_unpickling")
                    break
        if seen:
            return
        # ---- 3. usable + independent: writes
        mvs_new = [it.mv for it in items]
        mvs_old = [it.mv for it in items]
        if kern is not None:
            ki, kit, kfn, kft, kctx, ondemand = kern
            v1 = kit.vg.scalar(kft["t"])
            try:
                if ondemand:
                    new[ki].compile_kernels(only_if_needed=True)
                    kctx = new[ki]._buffer.context
                    w.count("kernels_built_on_demand_by_unpickled_objects")
                kctx.kernels[f"{kit.t['n']}_set_{kfn}"](obj=new[ki], value=v1.item())
            except Exception as e:
                viol(f"kernel-on-unpickled-object-{type(e).__name__}", tb(e))
                return
            w.count("kernel_calls_on_unpickled_objects")
            m2 = dict(mvs_new[ki])
            m2[kfn] = v1
            mvs_new[ki] = m2
            for name, obj, m in (("copy", new[ki], mvs_new[ki]), ("original", kit.obj, mvs_old[ki])):
                errs, _r = check_item(kit, obj, m)
                for kk, d in errs[:1]:
                    viol(f"kernel-on-unpickled-object:{'write-lost' if name == 'copy' else 'reached-the-original'}:{kk}", d)
            if seen:
                return
        for k in range(rng.randint(2, 6)):
            i = rng.randrange(len(items))
            it = items[i]
            side = "copy" if rng.random() < 0.7 else "original"
            tgt = new[i] if side == "copy" else it.obj
            mv = mvs_new[i] if side == "copy" else mvs_old[i]
            try:
                if it.kind == "hybrid":
                    sc = [f for f in it.spec["fields"] if f[2] in ("sc", "str", "arr")]
                    if not sc:
                        continue
                    xn, pn, kind, sub, _d = rng.choice(sc)
                    m2 = copy_model(it.spec, mv)
                    if kind == "sc":
                        v = it.vg.scalar(sub)
                        setattr(tgt, pn, v.item())
                    elif kind == "str":
                        v = it.vg.string(len(mv[xn]))
                        setattr(tgt, pn, v)
                    else:
                        v = it.vg.array(sub[0], sub[1], mv[xn].shape)
                        setattr(tgt, pn, v.copy())
                    m2[xn] = v
                else:
                    leaves = [(p, l, nt, nv) for p, l, nt, nv in nodes(it.t, mv) if nt["k"] in ("sc", "str") and p]
                    if not leaves:
                        continue
                    p, l, nt, nv = rng.choice(leaves)
                    v = it.vg.same_shape(nt, nv)
                    set_path(tgt, p, v if nt["k"] == "str" else v.item())
                    m2 = set_model(it.t, mv, p, v)
            except Exception as e:
                viol(f"write-on-{side}-{exc_kind(e)}|{it.kind}", tb(e))
                break
            w.count("writes_on_copy" if side == "copy" else "writes_on_original")
            if side == "copy":
                mvs_new[i] = m2
            else:
                mvs_old[i] = m2
            # objects sharing a reference target inside one group are not generated, so every object is independent
            bad = False
            for j, jt in enumerate(items):
                for name, obj, m in (("copy", new[j], mvs_new[j]), ("original", jt.obj, mvs_old[j])):
                    errs, reads = check_item(jt, obj, m)
                    w.count("reads", reads)
                    for kk, d in errs[:1]:
                        own = (j == i and name == side)
                        viol((f"write-on-{side}-lost:{kk}" if own else f"write-on-{side}-shows-in-{name}:{kk}") + f"|{it.kind}", d)
                        bad = True
            if bad:
                break
        if seen:
            return
        # ---- 4. the unpickled buffers are working allocators
        for nbuf, env in nbufs.values():
            al = nbuf.default_alignment
            regions = {}
            mine = [(n, it, mvs_new[i]) for i, (it, n) in enumerate(zip(items, new)) if n._buffer is nbuf]
            extra = []
            for step in range(rng.randint(4, 12)):
                r = rng.random()
                w.count("allocator_walk_steps")
                try:
                    if r < 0.5 or not regions:
                        size = rng.choice([1, 7, 8, 9, 16, 24, 100, 700])
                        aligned = rng.random() < 0.7
                        off = nbuf.allocate(size, align=aligned)
                        cap = nbuf.capacity
                        if not (0 <= off and off + size <= cap):
                            viol("unpickled-allocator:out-of-bounds", f"[{off},{off + size}) capacity {cap}")
                        if aligned and off % al:
                            viol("unpickled-allocator:misaligned", f"{off} % {al}")
                        for o, (s, _) in regions.items():
                            if off < o + s and o < off + size:
                                viol("unpickled-allocator:overlap", f"[{off},{off + size}) vs [{o},{o + s})")
                        st = bytes(((j * 13 + off) & 0x3F) | 0xC0 for j in range(size))
                        bufmon.poke(nbuf, off, st)
                        regions[off] = (size, st)
                    elif r < 0.75:
                        off = rng.choice(sorted(regions))
                        size, _ = regions.pop(off)
                        nbuf.free(off, size)
                    else:
                        src = rng.choice(mine)
                        n, it, m = src
                        if it.kind == "hybrid":
                            o2 = n.copy(_buffer=nbuf)
                        else:
                            o2 = it.cls(n, _buffer=nbuf)
                        extra.append((o2, it, m))
                        w.count("new_objects_in_unpickled_buffer")
                except Exception as e:
                    viol(f"unpickled-allocator-{exc_kind(e)}", tb(e))
                    break
                raw = bufmon.raw_bytes(nbuf)
                for o, (s, st) in regions.items():
                    if raw[o:o + s] != st:
                        viol("unpickled-allocator:live-region-overwritten", f"[{o},{o + s}) after step {step}")
                for obj, it, m in mine + extra:
                    errs, reads = check_item(it, obj, m)
                    w.count("reads", reads)
                    for kk, d in errs[:1]:
                        viol(f"unpickled-allocator:object-damaged:{kk}|{it.kind}", d)
                if seen:
                    break
            # the context of an unpickled buffer still hands out buffers
            try:
                ctx = nbuf.context
                str(ctx)
                ctx.omp_num_threads
                b2 = ctx.new_buffer(capacity=64)
                o = b2.allocate(8)
                if b2 not in ctx.buffers:
                    viol("unpickled-context-does-not-track-new-buffer", "")
            except Exception as e:
                viol(f"unpickled-context-{exc_kind(e)}", tb(e))
        w.case([[it.sig for it in items], [envs.index(it.env) for it in items], [e.kind for e in envs]],
               sample=dict(info, protocol=proto, form=form) if rng.random() < 0.003 else None)
    finally:
        for e in envs:
            e.close()
        flush_contracts(w, info)
