"""C09 — copy-construction yields an equal, storage-disjoint object."""
import numpy as np

from xv import bufmon
from xv.typegen import kinds_in, shape_sig, has_refs
from xv.model import Env, Obs, compare, exc_kind, nodes, get_path, set_path, set_model
from xv.decoder import decode
from xv.props.common import new_case, build_root, flush_contracts, ctxs

ID = "C09"
LEVEL = "exploration"
N_QUICK, N_THOROUGH = 70000, 1000000
T_QUICK, T_THOROUGH = 70, 1500
FLOORS = {"dest:same-buffer": 1500, "dest:other-buffer": 1500, "dest:other-context": 1500, "copies_with_refs": 1500,
          "isolation_writes": 20000, "referent_checks": 1500, "seen:ar1sS": 100, "hybrid_copies": 800,
          "hybrid_referent_checks": 500, "second_copies": 3000, "source_buffers_overwritten": 3000,
          "big_copies": 100, "copies_from_rebuilt_views": 3000}
RULE = ("random type AST (references at any depth) x value x placement; T(obj, _buffer=same | other buffer of the "
        "context | _context=other); oracle: copy re-reads equal to the model; bytes written by the copy lie in "
        "allocations made during the copy and are disjoint from the original's extent; every reference in the copy "
        "resolves into live memory of the copy's buffer: same offset as the source's referent when buffers are "
        "shared, a different live object of equal value otherwise; writes to sampled leaves of either side leave "
        "the other side's full re-read unchanged; 15% of the cases copy generated HybridClass families with bound "
        "references through HybridClass.copy() (same buffer / other buffer / other context / default) with the same "
        "oracle on the Python attributes and on the buffer data. distinct = (name-erased AST, destination kind).")
ASSUMPTIONS = ["in the shared-buffer case writes *through* a shared reference are visible on both sides by design and are not isolation cases"]


def _is_target(label):
    return label.endswith("->") or (label[-1].isdigit() and label[-3:-1] == "->")


def _through_ref(label):
    return "->" in label


def exts_of(env, t, off):
    raw = bufmon.raw_bytes(env.buf)
    v, e, errs, targets = decode(t, raw, off)
    if e is None:
        return None
    out = {}
    for r in [e] + targets:
        for x in r.flat():
            out.setdefault(x.label, x)
    return out


def run_case(w, rng):
    if rng.random() < 0.15:
        return run_hybrid_copy(w, rng)
    if rng.random() < 0.02:
        return run_big_copy(w, rng)
    c = new_case(w, rng, roots=("st", "ar", "str"))
    t, env = c.t, c.env
    dest = rng.choice(["same-buffer", "other-buffer", "other-context"])
    env2 = None
    seen = set()
    info = dict(c.info, dest=dest)

    def viol(mech, msg):
        if mech not in seen:
            seen.add(mech)
            w.violation(mech, msg, info)

    try:
        try:
            src = build_root(c, rng)
        except Exception as e:
            w.violation(f"construct-{exc_kind(e)}", f"{type(e).__name__}: {e}", c.info)
            return
        if t["k"] in ("st", "ar") and rng.random() < 0.4:
            # the source is a view rebuilt from buffer and offset (how nested parts and reference targets are seen)
            src = c.cls._from_buffer(src._buffer, src._offset)
            w.count("copies_from_rebuilt_views")
        if dest == "same-buffer":
            denv = env
        elif dest == "other-buffer":
            denv = env2 = Env(rng, ctx=env.ctx, kind=env.kind)
        else:
            octx = ctxs()[1]
            denv = env2 = Env(rng, ctx=octx)
        info["dest_placement"] = denv.placement()
        env.repoison()
        denv.repoison()
        src_before = bufmon.raw_bytes(env.buf)
        obs = Obs(denv)
        try:
            if dest == "other-context" and rng.random() < 0.5:
                # let the library create the buffer in the other context
                cp = c.cls(src, _context=denv.ctx)
                own_buffer = True
            else:
                cp = c.cls(src, _buffer=denv.buf, **({"_context": denv.ctx} if rng.random() < 0.3 else {}))
                own_buffer = False
        except Exception as e:
            viol(f"copy-{exc_kind(e)}|{dest}", f"{type(e).__name__}: {e}")
            return
        obs.done()
        w.count("dest:" + dest)
        if has_refs(t):
            w.count("copies_with_refs")
        for kk in kinds_in(t):
            w.seen(kk)
        # 1. equal value, original untouched
        for name, obj in (("copy", cp), ("original", src)):
            cm = compare(t, c.mv, obj)
            for path, kind, detail, sig in cm.errs[:3]:
                viol(f"{name}:{kind}|{sig}|{dest}", f"{path}: {detail}")
        if seen:
            return
        if not own_buffer:
            # 2. storage: what the copy wrote lies in allocations of this step, away from the original
            A = [(o, o + s) for o, s in obs.allocs]
            for name, o, n in obs.writes:
                if o is not None and n > 0 and not bufmon.inside(o, o + n, A):
                    viol(f"copy-wrote-outside-its-allocations|{dest}", f"{name} [{o},{o + n}) allocations {A}")
                    break
            for lo, hi in obs.changed:
                if not bufmon.inside(lo, hi, A):
                    viol(f"copy-changed-bytes-outside-its-allocations|{dest}", f"[{lo},{hi}) allocations {A}")
                    break
            se = exts_of(env, t, int(src._offset))
            ce = exts_of(denv, t, int(cp._offset))
            if se is None or ce is None:
                viol("undecodable", "decoder could not read source or copy")
                return
            sroot, croot = se["root"], ce["root"]
            if dest == "same-buffer" and sroot.start < croot.end and croot.start < sroot.end and sroot.size > 0:
                viol("copy-overlaps-original", f"[{croot.start},{croot.end}) vs [{sroot.start},{sroot.end})")
            # 3. references
            for lab, x in ce.items():
                if not _is_target(lab) or lab not in se:
                    continue
                w.count("referent_checks")
                if not denv.fol.sh.is_live(x.start, x.end) and x.size > 0:
                    viol(f"referent-of-copy-not-live|{dest}", f"{lab}: [{x.start},{x.end})")
                direct = lab.count("->") == 1
                if dest == "same-buffer" and direct:
                    if x.start != se[lab].start:
                        viol("shared-buffer-copy-duplicated-referent", f"{lab}: copy -> {x.start}, source -> {se[lab].start}")
                elif dest != "same-buffer":
                    pass
        if bufmon.raw_bytes(env.buf)[:len(src_before)] != src_before and dest != "same-buffer":
            viol(f"copy-modified-source-buffer|{dest}", "bytes of the source buffer changed")
        # 4. write isolation
        leaves = [(p, l, nt, nv) for p, l, nt, nv in nodes(t, c.mv) if nt["k"] in ("sc", "str") and (p or t["k"] == "str")]
        if dest == "same-buffer":
            leaves = [x for x in leaves if not _through_ref(x[1])]
        rng.shuffle(leaves)
        mvs = {"copy": c.mv, "original": c.mv}
        objs = {"copy": cp, "original": src}
        for p, l, nt, nv in leaves[:8]:
            if not p:
                continue
            side = rng.choice(["copy", "original"])
            other = "original" if side == "copy" else "copy"
            newv = c.vg.same_shape(nt, nv)
            try:
                set_path(objs[side], p, newv if nt["k"] == "str" else newv.item())
            except Exception as e:
                viol(f"write-{exc_kind(e)}|{dest}", f"{l}: {type(e).__name__}: {e}")
                break
            w.count("isolation_writes")
            mvs[side] = set_model(t, mvs[side], p, newv)
            bad = False
            for name in ("copy", "original"):
                cm = compare(t, mvs[name], objs[name], full=False)
                for path, kind, detail, sig in cm.errs[:2]:
                    viol(f"write-to-{side}-shows-in-{name}|{dest}" if name == other else f"write-lost|{dest}",
                         f"wrote {l} on the {side}; {name} {path}: {detail}")
                    bad = True
            if bad:
                break
        # 5. a second copy of the (by now modified) source into the same destination: equal to the source as it is
        #    now, and not the first copy again
        if not seen and rng.random() < 0.5:
            try:
                cp2 = c.cls(src, _buffer=cp._buffer)
            except Exception as e:
                viol(f"second-copy-{exc_kind(e)}|{dest}", f"{type(e).__name__}: {e}")
                cp2 = None
            if cp2 is not None:
                w.count("second_copies")
                for path, kind, detail, sig in compare(t, mvs["original"], cp2, full=False).errs[:2]:
                    viol(f"second-copy:{kind}|{sig}|{dest}", f"{path}: {detail}")
                for path, kind, detail, sig in compare(t, mvs["copy"], cp, full=False).errs[:1]:
                    viol(f"first-copy-changed-by-second-copy:{kind}|{sig}|{dest}", f"{path}: {detail}")
        # 6. the copy does not depend on the source's storage: in the cross-buffer case the whole source buffer is
        #    overwritten (as if everything in it had been freed and reused) and the copy is read again
        if not seen and dest != "same-buffer" and cp._buffer is not src._buffer:
            n = len(bufmon.raw_bytes(env.buf))
            bufmon.poke(env.buf, 0, bufmon.poison_pattern(0, n))
            w.count("source_buffers_overwritten")
            for path, kind, detail, sig in compare(t, mvs["copy"], cp).errs[:2]:
                viol(f"copy-depends-on-source-storage:{kind}|{sig}|{dest}", f"{path}: {detail}")
        w.case([shape_sig(t), dest, env.kind, denv.kind], sample=info if c.nontrivial and rng.random() < 0.004 else None,
               nontrivial=c.nontrivial)
    finally:
        env.close()
        if env2 is not None:
            env2.close()
        flush_contracts(w, info)


# --------------------------------------------------------------------------
# HybridClass.copy()
# --------------------------------------------------------------------------
def run_hybrid_copy(w, rng):
    from xv.hybridgen import gen_family, ValGenH, to_kwargs, compare_h, copy_model, spec_sig

    specs, outer = gen_family(rng, levels=rng.choice([1, 1, 2]), refs=True)
    vg = ValGenH(rng)
    env = Env(rng, ctx=ctxs()[0], kind="numpy", neighbours=rng.choice([0, 2]))
    env2 = None
    table = {}
    info = dict(hybrid_family=[(sp["name"], spec_sig(sp)) for sp in specs])
    seen = set()

    def viol(mech, msg):
        if mech not in seen:
            seen.add(mech)
            w.violation(mech, msg, info)

    def resolve(i):
        return table[i]

    try:
        mv = vg.value(outer)
        try:
            obj = outer["cls"](**to_kwargs(outer, mv, rng, _buffer=env.buf))

            def bind(spec, m, o):
                for xn, pn, kind, sub, dflt in spec["fields"]:
                    if kind == "ref" and rng.random() < 0.8:
                        tmv = vg.value(sub)
                        tgt = sub["cls"](**to_kwargs(sub, tmv, rng, _buffer=o._buffer))
                        setattr(o, pn, tgt)
                        table[len(table) + 1] = (sub, tmv)
                        m[xn] = len(table)
                    elif kind == "nested":
                        bind(sub, m[xn], getattr(o, pn))
            bind(outer, mv, obj)
        except Exception as e:
            w.violation(f"construct-{exc_kind(e)}", f"{type(e).__name__}: {e}", info)
            return
        if compare_h(outer, mv, obj, resolve):
            w.count("skipped_construct_mismatch")
            return
        dest = rng.choice(["same-buffer", "other-buffer", "other-context", "default"])
        info["dest"] = dest
        try:
            if dest == "same-buffer":
                cp = obj.copy(_buffer=env.buf)
            elif dest == "other-buffer":
                env2 = Env(rng, ctx=ctxs()[0], kind="numpy")
                cp = obj.copy(_buffer=env2.buf)
            elif dest == "other-context":
                cp = obj.copy(_context=ctxs()[1])
            else:
                cp = obj.copy()
        except Exception as e:
            viol(f"hybrid-copy-{exc_kind(e)}|{dest}", f"{type(e).__name__}: {e}")
            return
        w.count("hybrid_copies")
        w.count("hybrid_dest:" + dest)
        shared = cp._buffer is obj._buffer
        if shared and int(cp._offset) == int(obj._offset):
            viol("hybrid-copy-is-the-original", dest)
        if dest == "other-buffer" and cp._buffer is not env2.buf:
            viol("hybrid-copy-in-wrong-buffer", dest)
        if dest == "other-context" and cp._buffer.context is not ctxs()[1]:
            viol("hybrid-copy-in-wrong-context", dest)
        for name, o in (("copy", cp), ("original", obj)):
            for p, kind, detail in compare_h(outer, mv, o, resolve)[:2]:
                viol(f"hybrid-{name}:{kind}|{dest}", f"{p}: {detail}")
        if seen:
            return
        # every reference of the copy resolves inside the copy's own buffer: same referent when the buffer is
        # shared, a duplicate otherwise -- through the Python attribute AND through the buffer data
        def refs(spec, m, o, oo, path):
            for xn, pn, kind, sub, dflt in spec["fields"]:
                if kind == "nested":
                    refs(sub, m[xn], getattr(o, pn), getattr(oo, pn), path + [pn])
                elif kind == "ref" and m[xn] is not None:
                    w.count("hybrid_referent_checks")
                    for view, r, r0 in (("py", getattr(o, pn), getattr(oo, pn)),
                                        ("xo", getattr(o._xobject, xn), getattr(oo._xobject, xn))):
                        if r is None:
                            viol(f"hybrid-copy-reference-null|{view}", ".".join(path + [pn]))
                        elif r._buffer is not o._buffer:
                            viol(f"reference-of-hybrid-copy-resolves-outside-its-buffer|{view}|{dest}", ".".join(path + [pn]))
                        elif shared and int(r._offset) != int(r0._offset):
                            viol(f"shared-buffer-hybrid-copy-duplicated-referent|{view}", ".".join(path + [pn]))
        refs(outer, mv, cp, obj, [])
        # write isolation on scalar fields of the two sides
        mvs = {"copy": mv, "original": mv}
        objs = {"copy": cp, "original": obj}
        sc = [f for f in outer["fields"] if f[2] == "sc"]
        for _ in range(3):
            if not sc or seen:
                break
            xn, pn, _k, sub, _d = rng.choice(sc)
            side = rng.choice(["copy", "original"])
            v = vg.scalar(sub)
            setattr(objs[side], pn, v.item())
            m2 = copy_model(outer, mvs[side])
            m2[xn] = v
            mvs[side] = m2
            w.count("isolation_writes")
            for name in ("copy", "original"):
                for p, kind, detail in compare_h(outer, mvs[name], objs[name], resolve)[:1]:
                    viol(f"hybrid-write-to-{side}-shows-in-{name}|{dest}" if name != side else f"hybrid-write-lost|{dest}", f"{p}: {detail}")
        w.case(["hybrid", [spec_sig(sp) for sp in specs], dest], sample=info if rng.random() < 0.01 else None)
    finally:
        env.close()
        if env2 is not None:
            env2.close()
        flush_contracts(w, info)


def run_big_copy(w, rng):
    """Objects far larger than any staging block, copied between contexts with unequal source / destination offsets."""
    import xobjects as xo
    from xv.typegen import _uid
    n = rng.choice([9000, 20000, 140000])
    S = type(f"Big{next(_uid)}", (xo.Struct,), {"k": xo.Int64, "a": xo.Float64[:], "z": xo.Int32})
    env = Env(rng, ctx=ctxs()[0], kind="numpy", neighbours=2, cap=64)
    info = dict(big_copy=True, n=n)
    try:
        env.buf.allocate(rng.choice([8, 24, 104]))
        vals = np.arange(n, dtype=np.float64) * 0.5 + 1
        src = S(k=7, a=vals, z=-3, _buffer=env.buf)
        for dest in ("other-context", "other-buffer"):
            if dest == "other-context":
                cp = S(src, _context=ctxs()[1]) if rng.random() < 0.5 else S(src, _buffer=ctxs()[1].new_buffer(capacity=64))
            else:
                b2 = ctxs()[0].new_buffer(capacity=rng.choice([64, 1 << 20]))
                b2.allocate(rng.choice([8, 40]))
                cp = S(src, _buffer=b2)
            w.count("big_copies")
            got = cp.a.to_nparray()
            if int(cp.k) != 7 or int(cp.z) != -3 or len(got) != n or got.tobytes() != vals.tobytes():
                bad = int(np.nonzero(got[:min(len(got), n)] != vals[:min(len(got), n)])[0][0]) if len(got) and (got[:min(len(got), n)] != vals[:min(len(got), n)]).any() else -1
                w.violation(f"big-copy-differs|{dest}", f"n={n}: k={cp.k} z={cp.z} len={len(got)} first differing item {bad}", info)
        w.case(["big", n], sample=info)
    finally:
        env.close()
        flush_contracts(w, info)
