"""C09 — copy-construction yields an equal, storage-disjoint object."""
import numpy as np

from xv import bufmon
from xv.typegen import kinds_in, shape_sig, has_refs
from xv.model import Env, Obs, compare, exc_kind, nodes, get_path, set_path, set_model
from xv.decoder import decode
from xv.props.common import new_case, build_root, flush_contracts, ctxs

ID = "C09"
LEVEL = "exploration"
N_QUICK, N_THOROUGH = 30000, 1000000
T_QUICK, T_THOROUGH = 70, 1500
FLOORS = {"dest:same-buffer": 1500, "dest:other-buffer": 1500, "dest:other-context": 1500, "copies_with_refs": 1500,
          "isolation_writes": 20000, "referent_checks": 5000, "seen:ar1sS": 100}
RULE = ("random type AST (references at any depth) x value x placement; T(obj, _buffer=same | other buffer of the "
        "context | _context=other); oracle: copy re-reads equal to the model; bytes written by the copy lie in "
        "allocations made during the copy and are disjoint from the original's extent; every reference in the copy "
        "resolves into live memory of the copy's buffer: same offset as the source's referent when buffers are "
        "shared, a different live object of equal value otherwise; writes to sampled leaves of either side leave "
        "the other side's full re-read unchanged. distinct = (name-erased AST, destination kind).")
ASSUMPTIONS = ["in the shared-buffer case writes *through* a shared reference are visible on both sides by design and are not isolation cases"]


def _is_target(label):
    return label.endswith("->") or (label[-1].isdigit() and label[-3:-1] == "->")


def _through_ref(label):
    return "->" in label


def exts_of(env, t, off):
    raw = bufmon.raw_bytes(env.buf)
    v, e, errs, targets = decode(t, raw, off)
    if e is None:
        return None
    out = {}
    for r in [e] + targets:
        for x in r.flat():
            out.setdefault(x.label, x)
    return out


def run_case(w, rng):
    c = new_case(w, rng, roots=("st", "ar", "str"))
    t, env = c.t, c.env
    dest = rng.choice(["same-buffer", "other-buffer", "other-context"])
    env2 = None
    seen = set()
    info = dict(c.info, dest=dest)

    def viol(mech, msg):
        if mech not in seen:
            seen.add(mech)
            w.violation(mech, msg, info)

    try:
        try:
            src = build_root(c, rng)
        except Exception as e:
            w.violation(f"construct-{exc_kind(e)}", f"{type(e).__name__}: {e}", c.info)
            return
        if dest == "same-buffer":
            denv = env
        elif dest == "other-buffer":
            denv = env2 = Env(rng, ctx=env.ctx, kind=env.kind)
        else:
            octx = ctxs()[1]
            denv = env2 = Env(rng, ctx=octx)
        info["dest_placement"] = denv.placement()
        env.repoison()
        denv.repoison()
        src_before = bufmon.raw_bytes(env.buf)
        obs = Obs(denv)
        try:
            if dest == "other-context" and rng.random() < 0.5:
                # let the library create the buffer in the other context
                cp = c.cls(src, _context=denv.ctx)
                own_buffer = True
            else:
                cp = c.cls(src, _buffer=denv.buf, **({"_context": denv.ctx} if rng.random() < 0.3 else {}))
                own_buffer = False
        except Exception as e:
            viol(f"copy-{exc_kind(e)}|{dest}", f"{type(e).__name__}: {e}")
            return
        obs.done()
        w.count("dest:" + dest)
        if has_refs(t):
            w.count("copies_with_refs")
        for kk in kinds_in(t):
            w.seen(kk)
        # 1. equal value, original untouched
        for name, obj in (("copy", cp), ("original", src)):
            cm = compare(t, c.mv, obj)
            for path, kind, detail, sig in cm.errs[:3]:
                viol(f"{name}:{kind}|{sig}|{dest}", f"{path}: {detail}")
        if seen:
            return
        if not own_buffer:
            # 2. storage: what the copy wrote lies in allocations of this step, away from the original
            A = [(o, o + s) for o, s in obs.allocs]
            for name, o, n in obs.writes:
                if o is not None and n > 0 and not bufmon.inside(o, o + n, A):
                    viol(f"copy-wrote-outside-its-allocations|{dest}", f"{name} [{o},{o + n}) allocations {A}")
                    break
            for lo, hi in obs.changed:
                if not bufmon.inside(lo, hi, A):
                    viol(f"copy-changed-bytes-outside-its-allocations|{dest}", f"[{lo},{hi}) allocations {A}")
                    break
            se = exts_of(env, t, int(src._offset))
            ce = exts_of(denv, t, int(cp._offset))
            if se is None or ce is None:
                viol("undecodable", "decoder could not read source or copy")
                return
            sroot, croot = se["root"], ce["root"]
            if dest == "same-buffer" and sroot.start < croot.end and croot.start < sroot.end and sroot.size > 0:
                viol("copy-overlaps-original", f"[{croot.start},{croot.end}) vs [{sroot.start},{sroot.end})")
            # 3. references
            for lab, x in ce.items():
                if not _is_target(lab) or lab not in se:
                    continue
                w.count("referent_checks")
                if not denv.fol.sh.is_live(x.start, x.end) and x.size > 0:
                    viol(f"referent-of-copy-not-live|{dest}", f"{lab}: [{x.start},{x.end})")
                direct = lab.count("->") == 1
                if dest == "same-buffer" and direct:
                    if x.start != se[lab].start:
                        viol("shared-buffer-copy-duplicated-referent", f"{lab}: copy -> {x.start}, source -> {se[lab].start}")
                elif dest != "same-buffer":
                    pass
        if bufmon.raw_bytes(env.buf)[:len(src_before)] != src_before and dest != "same-buffer":
            viol(f"copy-modified-source-buffer|{dest}", "bytes of the source buffer changed")
        # 4. write isolation
        leaves = [(p, l, nt, nv) for p, l, nt, nv in nodes(t, c.mv) if nt["k"] in ("sc", "str") and (p or t["k"] == "str")]
        if dest == "same-buffer":
            leaves = [x for x in leaves if not _through_ref(x[1])]
        rng.shuffle(leaves)
        mvs = {"copy": c.mv, "original": c.mv}
        objs = {"copy": cp, "original": src}
        for p, l, nt, nv in leaves[:8]:
            if not p:
                continue
            side = rng.choice(["copy", "original"])
            other = "original" if side == "copy" else "copy"
            newv = c.vg.same_shape(nt, nv)
            try:
                set_path(objs[side], p, newv if nt["k"] == "str" else newv.item())
            except Exception as e:
                viol(f"write-{exc_kind(e)}|{dest}", f"{l}: {type(e).__name__}: {e}")
                break
            w.count("isolation_writes")
            mvs[side] = set_model(t, mvs[side], p, newv)
            bad = False
            for name in ("copy", "original"):
                cm = compare(t, mvs[name], objs[name], full=False)
                for path, kind, detail, sig in cm.errs[:2]:
                    viol(f"write-to-{side}-shows-in-{name}|{dest}" if name == other else f"write-lost|{dest}",
                         f"wrote {l} on the {side}; {name} {path}: {detail}")
                    bad = True
            if bad:
                break
        w.case([shape_sig(t), dest, env.kind, denv.kind], sample=info if c.nontrivial and rng.random() < 0.004 else None,
               nontrivial=c.nontrivial)
    finally:
        env.close()
        if env2 is not None:
            env2.close()
        flush_contracts(w, info)
