"""Allocator histories shared by C04 (safety of live regions) and C12 (policy:
first-fit, coalescing, accounting, termination).

A history is a sequence over {allocate(size, aligned|packed), free(live region),
grow(n)} on a real BufferNumpy / BufferByteArray.  The oracles are listeners on
the allocation log (xv.bufmon), i.e. they judge after *every* event.
"""
import itertools

import numpy as np

import xobjects as xo
from xv import bufmon
from xv.bufmon import Shadow

bufmon.install()
bufmon.install_contracts()

_ctx = None


def ctx():
    global _ctx
    if _ctx is None:
        _ctx = xo.ContextCpu()
    return _ctx


CAPS = [0, 0, 1, 7, 8, 9, 16, 24, 32, 64, 100, 128, 256]
ALIGNS = [1, 1, 2, 4, 8, 8, 16, 32, 64]
STEPS = [None, None, None, 1, 3, 8, 64, 1000]


def make_buffer(kind, cap, al, gs):
    return bufmon.KINDS[kind](capacity=cap, context=ctx(), default_alignment=al, grow_step=gs)


def stamp(rid, n):
    j = np.arange(n, dtype=np.int64)
    return ((rid * 31 + j * 17 + 5) & 0xFF).astype(np.uint8).tobytes()


class Judge:
    """Listener that applies the C04 and/or C12 oracles after every event."""

    def __init__(self, w, buf, cfg, do04, do12, stamps=True, register=True):
        self.w, self.buf, self.cfg = w, buf, cfg
        self.do04, self.do12 = do04, do12
        self.stamps = stamps  # False when the regions belong to a foreign client (repository suite under monitors)
        self.sh = Shadow(buf.capacity)
        self.regions = {}  # rid -> (off, size)
        self.next_rid = 1
        self.hist = []
        self.bad = False
        self.last_new = None
        self.zero_regions = []  # offsets of zero-size regions handed out and not given back yet
        self.zero_freed = False
        if register:
            bufmon.listeners.append(self)

    def close(self):
        if self in bufmon.listeners:
            bufmon.listeners.remove(self)

    def viol(self, mech, msg):
        self.bad = True
        self.w.violation(mech, msg, dict(cfg=self.cfg, history=self.hist[-40:]))

    def __call__(self, buf, ev):
        if buf is not self.buf:
            return
        w = self.w
        op = ev["op"]
        cap = buf.capacity
        if op == "alloc":
            self.hist.append(("alloc", ev["size"], ev["align"], ev["off"], ev["cap0"], ev["cap1"]))
            w.count("allocs")
            if ev["exc"] is not None:
                if ev["exc"] == "MemoryError" and ev["size"] >= (1 << 40):
                    # a request no machine can serve may be refused; the buffer must be exactly as before
                    w.count("impossible_requests_refused")
                    if ev["cap1"] != ev["cap0"]:
                        self.viol("refused-request-changed-capacity", f"{ev['cap0']} -> {ev['cap1']}")
                    elif len(bufmon.raw_bytes(buf)) != buf.capacity:
                        self.viol("storage-size-differs-from-capacity", f"len(storage)={len(bufmon.raw_bytes(buf))} capacity={buf.capacity} after a refused request")
                    elif hasattr(buf, "chunks"):
                        ch = [[c.start, c.end] for c in buf.chunks if c.end > c.start]
                        if ch != self.sh.free and self.do12:
                            self.viol("refused-request-changed-free-list", f"chunks={ch} spec={self.sh.free}")
                        elif any(c.end > buf.capacity for c in buf.chunks):
                            self.viol("free-space-beyond-capacity-after-refused-request", f"chunks={ch} capacity={buf.capacity}")
                    return
                if self.do12:
                    self.viol(f"allocate-raises:{ev['exc']}", f"allocate({ev['size']}) raised {ev['exc']}")
                return
            off, size, al = ev["off"], ev["size"], ev["alignment"]
            grew = ev["cap1"] != ev["cap0"]
            if grew:
                w.count("growths")
            # ---------------- C04: geometry
            if self.do04:
                if not (isinstance(off, (int, np.integer)) and 0 <= off and off + size <= cap):
                    self.viol("out-of-bounds", f"region [{off},{off}+{size}) not within capacity {cap}")
                elif off % al != 0:
                    self.viol("misaligned", f"offset {off} not a multiple of {al}")
                elif size > 0:
                    for rid, (o, s) in self.regions.items():
                        if off < o + s and o < off + size:
                            self.viol("overlap", f"new [{off},{off + size}) overlaps live [{o},{o + s})")
                            break
                if ev["cap1"] < ev["cap0"]:
                    self.viol("capacity-shrank", f"{ev['cap0']} -> {ev['cap1']}")
            # ---------------- C12: placement policy in lock-step with the spec
            if self.do12:
                sh = self.sh
                fit = sh.fit(size, al)
                if size == 0 and self.zero_freed:
                    # zero-length gaps may exist in the free list by now; where a zero-size request goes is not judged
                    w.count("zero_size_placements_not_judged")
                    fit = None if grew else (0, off)
                if fit is not None:
                    w.count("alloc_fit_existed")
                    if grew:
                        self.viol("grew-although-fit", f"a free interval could hold size={size} align={al} at {fit[1]} but capacity went {ev['cap0']}->{ev['cap1']}")
                    if off != fit[1]:
                        self.viol("not-first-fit", f"returned {off}, lowest fitting free space is at {fit[1]} (size={size}, align={al}, free={sh.free})")
                else:
                    if size == 0 and not grew:
                        w.count("zero_size_no_fit_no_growth")
                    elif not grew:
                        self.viol("no-fit-no-growth", f"no free space fits size={size} align={al} but capacity unchanged and got {off}")
                    else:
                        w.count("alloc_needed_growth")
                        if ev["cap1"] <= ev["cap0"]:
                            self.viol("capacity-not-larger", f"{ev['cap0']}->{ev['cap1']}")
                # advance the spec with what the implementation did
                for _, c1 in ev["grows"]:
                    sh.grow_to(c1)
                sh.grow_to(cap)
                if fit is None and grew and not (size == 0 and self.zero_freed):
                    fit2 = sh.fit(size, al)
                    if fit2 is None or fit2[1] != off:
                        self.viol("not-first-fit-after-growth", f"returned {off}, spec says {fit2} (free={sh.free})")
                if not sh.take_at(off, size) and size > 0:
                    self.viol("allocated-non-free-bytes", f"[{off},{off + size}) is not inside the spec's free space {sh.free}")
            # ---------------- stamp the new region
            if size > 0 and not self.bad:
                rid = self.next_rid
                self.next_rid += 1
                self.regions[rid] = (off, size)
                self.last_new = rid
                if self.stamps:
                    data = stamp(rid, size)
                    if rid % 3 == 0:
                        buf.update_from_buffer(off, data)
                    else:
                        bufmon.poke(buf, off, data)
            else:
                self.last_new = None
                if size == 0 and not self.bad:
                    self.zero_regions.append(off)
        elif op == "free":
            self.hist.append(("free", ev["off"], ev["size"]))
            w.count("frees")
            if ev["exc"] is not None:
                if self.do12:
                    self.viol(f"free-raises:{ev['exc']}", f"free({ev['off']},{ev['size']}) raised {ev['exc']} (free list before: {self.sh.free})")
                # region is still considered freed by the client
            for rid, (o, s) in list(self.regions.items()):
                if o == ev["off"] and s == ev["size"]:
                    del self.regions[rid]
                    break
            if ev["size"] == 0:
                self.zero_freed = True
            if self.do12 and ev["exc"] is None:
                if not self.sh.free:
                    w.count("frees_into_full_buffer")
                self.sh.release(ev["off"], ev["size"])
        elif op == "grow":
            self.hist.append(("grow", ev["n"], ev["cap0"], ev["cap1"]))
            w.count("growths")
            if self.do04 and ev["cap1"] < ev["cap0"]:
                self.viol("capacity-shrank", f"{ev['cap0']} -> {ev['cap1']}")
            if self.do12:
                if ev["cap1"] != ev["cap0"] + ev["n"]:
                    self.viol("grow-wrong-amount", f"grow({ev['n']}): {ev['cap0']}->{ev['cap1']}")
                self.sh.grow_to(ev["cap1"])
        # ---------------- after every event
        self.audit()

    def audit(self):
        """Checks at a quiescent point (after every event of this buffer, and after events of a buffer that was
        obtained from this one by copying)."""
        w, buf = self.w, self.buf
        if self.bad:
            return
        if self.do04 and self.stamps:
            raw = bufmon.raw_bytes(buf)
            if len(raw) != buf.capacity:
                self.viol("storage-size-differs-from-capacity", f"len(storage)={len(raw)} capacity={buf.capacity}")
                return
            for rid, (o, s) in self.regions.items():
                w.count("stamp_checks")
                if raw[o:o + s] != stamp(rid, s):
                    self.viol("live-data-lost", f"bytes of live region [{o},{o + s}) changed after {self.hist[-1:]}")
                    break
        if self.do12:
            w.count("get_free_checks")
            gf = buf.get_free()
            if gf != self.sh.total_free():
                self.viol("get_free-wrong", f"get_free()={gf}, spec: capacity {buf.capacity} - live {sum(self.sh.live.values())} - lost {self.sh.lost} = {self.sh.total_free()} after {self.hist[-1:]}")
            elif hasattr(buf, "chunks"):
                ch = [[c.start, c.end] for c in buf.chunks if c.end > c.start]
                if ch != self.sh.free:
                    self.viol("free-list-differs-from-spec", f"chunks={ch} spec={self.sh.free} after {self.hist[-1:]}")


def fork_judge(j, rng):
    """A second buffer obtained from j.buf by copy.deepcopy / a pickle round trip, with a judge that starts from the
    copied state: same live regions (the stamps must have come along), and as free space whatever the copy reports,
    provided it is consistent (inside the capacity, sorted, disjoint from every live region).  Both buffers are
    then driven further; each must behave as a buffer of its own."""
    import copy
    import pickle
    how = rng.choice(["deepcopy", "pickle0", "pickle2", "pickle5"])
    w = j.w
    try:
        if how == "deepcopy":
            b2 = copy.deepcopy(j.buf)
        else:
            b2 = pickle.loads(pickle.dumps(j.buf, protocol=int(how[6:])))
    except Exception as e:  # noqa
        j.viol(f"buffer-copy-raises:{type(e).__name__}", f"{how}: {e}")
        return None
    w.count("buffers_copied")
    w.count("buffers_copied:" + how)
    cfg = dict(j.cfg, copied_by=how)
    j2 = Judge(w, b2, cfg, j.do04, j.do12, stamps=j.stamps)
    j2.regions = dict(j.regions)
    j2.zero_regions = list(j.zero_regions)
    j2.zero_freed = j.zero_freed
    j2.next_rid = j.next_rid + 1000
    j2.hist = list(j.hist[-12:]) + [("copied", how)]
    sh = Shadow(b2.capacity)
    sh.live = {o: s_ for (o, s_) in j.regions.values()}
    free = [[c.start, c.end] for c in getattr(b2, "chunks", []) if c.end > c.start]
    ok = all(0 <= a < b <= b2.capacity for a, b in free) and all(free[i][1] < free[i + 1][0] or free[i][1] <= free[i + 1][0] for i in range(len(free) - 1))
    for a, b in free:
        for o, s_ in j.regions.values():
            if a < o + s_ and o < b:
                ok = False
    if b2.capacity < max([o + s_ for o, s_ in j.regions.values()] + [0]):
        ok = False
    if not ok:
        j2.viol("copied-buffer-inconsistent", f"{how}: capacity={b2.capacity} free={free} live={sorted(j.regions.values())}")
        return j2
    # adjacent free chunks are merged the way the spec keeps them
    merged = []
    for a, b in free:
        if merged and merged[-1][1] == a:
            merged[-1][1] = b
        else:
            merged.append([a, b])
    if merged != free and j.do12:
        j2.viol("copied-buffer-free-list-not-coalesced", f"{free}")
        return j2
    sh.free = merged
    sh.lost = b2.capacity - sum(sh.live.values()) - sh.total_free()
    j2.sh = sh
    j2.audit()
    return j2


def pick_size(rng, buf, sh):
    r = rng.random()
    if r < 0.04:
        return 0
    if buf.capacity > 100000:
        # the capacity doubles on growth: keep long histories from reaching hundreds of MB
        # (every event snapshots the whole storage)
        r *= 0.40
    if r < 0.40:
        return rng.choice([1, 1, 2, 7, 8, 8, 9, 15, 16, 17])
    if r < 0.60 and sh.free:  # exact fit of some free interval (or a bit off)
        s, e = rng.choice(sh.free)
        return max(0, e - s + rng.choice([0, 0, 0, -1, 1]))
    if r < 0.68:
        return max(0, buf.get_free() + rng.choice([0, 0, 1]))
    if r < 0.70:
        return rng.randint(900, 2500)
    return rng.randint(1, 64)


def random_history(w, rng, do04, do12):
    kind = rng.choice(["numpy", "bytearray"])
    cap, al, gs = rng.choice(CAPS), rng.choice(ALIGNS), rng.choice(STEPS)
    if rng.random() < 0.25:
        cap = rng.randint(0, 600)
    cfg = dict(kind=kind, capacity=cap, alignment=al, grow_step=gs)
    buf = make_buffer(kind, cap, al, gs)
    j = Judge(w, buf, cfg, do04, do12)
    nops = rng.randint(5, 80)
    opk = []
    fork_at = rng.randint(2, nops) if rng.random() < 0.2 else None
    js = [j]
    j0 = j
    try:
        for step in range(nops):
            if step == fork_at and len(js) == 1 and not j0.bad:
                j2 = fork_judge(j0, rng)
                if j2 is not None:
                    js.append(j2)
                opk.append("C")
                if any(x.bad for x in js):
                    break
            j = rng.choice(js)
            buf = j.buf
            r = rng.random()
            if rng.random() < 0.03:
                # the buffer's default alignment is a plain attribute: a client may change it between requests; each
                # aligned request is then served at a multiple of the alignment in force when it is made
                buf.default_alignment = rng.choice(ALIGNS)
                w.count("default_alignment_changed")
                opk.append("A")
            if rng.random() < 0.03 and j.zero_regions:
                # a zero-size region handed out earlier is given back (a request like any other; no bytes change hands).
                # Where LATER zero-size requests are placed once zero-length gaps exist is not fixed by C12's statement
                # and is no longer judged in that history; accounting and the placement of real requests still are.
                z = j.zero_regions.pop(rng.randrange(len(j.zero_regions)))
                try:
                    buf.free(z, 0)
                except Exception:
                    w.count("free_raised")
                w.count("zero_size_regions_freed")
                opk.append("z")
                if j.bad:
                    break
            if r < 0.015:
                # a request that cannot possibly be served; the caller catches the error and carries on
                try:
                    buf.allocate(1 << rng.choice([58, 60]), align=rng.random() < 0.5)
                except (MemoryError, ValueError, OverflowError):
                    pass
                opk.append("X")
                if j.bad:
                    break
                continue
            if r < 0.55 or not j.regions:
                size = pick_size(rng, buf, j.sh if do12 else Shadow(0))
                try:
                    buf.allocate(size, align=rng.random() < 0.7)
                except (Exception, RecursionError):
                    w.count("allocate_raised")  # judged by C12; C04 only watches live regions
                    break
                opk.append("a")
            elif r < 0.93:
                rid = rng.choice(sorted(j.regions))
                o, s = j.regions[rid]
                try:
                    buf.free(o, s)
                except Exception:
                    w.count("free_raised")  # judged by C12
                opk.append("f")
            else:
                buf.grow(rng.choice([0, 1, 8, 13, 64]))
                opk.append("g")
            if len(js) > 1:
                # what happens to one buffer must not show in the other one
                for x in js:
                    if x is not j:
                        w.count("audits_of_the_other_buffer")
                        x.audit()
            if any(x.bad for x in js):
                break
    finally:
        for x in js:
            x.close()
    j = j0
    buf = j0.buf
    w.count("histories")
    w.count("events", sum(len(x.hist) for x in js))
    sig = dict(kind=kind, cap=min(cap, 300) // 8, al=al, gs=gs, n=nops // 10,
               ops="".join(opk[:12]))
    w.case(sig, sample=dict(cfg=cfg, history=j.hist[:14]) if len(j.hist) > 6 else None)
    for name, det in bufmon.take_contract_failures():
        w.violation("contract:" + name, str(det), dict(cfg=cfg, history=j.hist[-10:]))


# ---- small-scope exhaustive enumeration (as a workload) ---------------------
ENUM_CFGS = [
    (kind, cap, al, gs)
    for kind in ("numpy", "bytearray")
    for cap in (0, 4, 8, 16)
    for al in (1, 4)
    for gs in (None, 4)
]
ENUM_SIZES = (1, 3, 4, 8)


def enum_histories(w, idx, depth, do04, do12):
    """Enumerate every history of `depth` ops for configuration idx."""
    kind, cap, al, gs = ENUM_CFGS[idx % len(ENUM_CFGS)]
    cfg = dict(kind=kind, capacity=cap, alignment=al, grow_step=gs, enum_depth=depth)
    n_seq = 0

    def rec(prefix):
        nonlocal n_seq
        # replay prefix on a fresh buffer
        buf = make_buffer(kind, cap, al, gs)
        j = Judge(w, buf, cfg, do04, do12)
        try:
            for op in prefix:
                if op[0] == "a":
                    try:
                        buf.allocate(op[1], align=op[2])
                    except (Exception, RecursionError):
                        w.count("allocate_raised")
                        return
                elif op[0] == "f":
                    rids = sorted(j.regions)
                    o, s = j.regions[rids[op[1]]]
                    try:
                        buf.free(o, s)
                    except Exception:
                        w.count("free_raised")
                else:
                    buf.grow(op[1])
                if j.bad:
                    return
            nlive = len(j.regions)
        finally:
            j.close()
        if len(prefix) == depth:
            n_seq += 1
            return
        for s in ENUM_SIZES:
            for a in (True, False):
                if al == 1 and not a:
                    continue
                rec(prefix + [("a", s, a)])
        for i in range(nlive):
            rec(prefix + [("f", i)])
        rec(prefix + [("g", 4)])

    rec([])
    w.count("enum_sequences", n_seq)
    w.count("histories", n_seq)
    w.case(dict(enum=cfg), sample=None)
    for name, det in bufmon.take_contract_failures():
        w.violation("contract:" + name, str(det), dict(cfg=cfg))


# ---- the repository's own test-suite as a workload (under the same monitors) ---------------------
def suite_under_monitors(w, prefix="suite:"):
    """Runs <repo>/tests in a sub-process with the xv.pytest_monitors plug-in (scratch cwd = this worker's cwd):
    C04/C12 judges on every buffer the tests create and the C13 contracts on every primitive call.
    Counters are merged with `prefix`; violations are recorded with the test id."""
    import json
    import os
    import subprocess
    import sys
    from xv import REPO, VERIF_DIR, DEPS, GUARD

    out = os.path.abspath("suite_monitors.json")
    env = dict(os.environ, XV_SUITE_OUT=out, PYTHONPATH=os.pathsep.join([REPO, VERIF_DIR, DEPS]), XV_NO_REACH="1")
    env[GUARD] = "1"
    try:
        r = subprocess.run([sys.executable, "-m", "pytest", "-q", "-p", "no:cacheprovider", "-p", "xv.pytest_monitors",
                            "--timeout=900", os.path.join(REPO, "tests")], env=env, capture_output=True, text=True, timeout=1500)
    except subprocess.TimeoutExpired:
        w.count(prefix + "watchdog")
        return
    tail = (r.stdout.strip().splitlines() or [""])[-1]
    w.notes["suite_tail"] = tail
    if not os.path.exists(out):
        w.count(prefix + "no_result")
        return
    with open(out) as f:
        d = json.load(f)
    for k, v in d["counters"].items():
        w.count(prefix + k, v)
    w.count(prefix + "runs")
    for v in d["violations"]:
        w.violation(v["mech"], v["msg"], dict(test=v["case_seed"]))
