"""C05 — object bytes follow the documented binary layout (independent decoder)."""
import numpy as np

from xv import bufmon
from xv.typegen import kinds_in, shape_sig, diff_model, walk, plain, build, has_refs
from xv.model import exc_kind, nodes, get_path, set_path, set_model
from xv.decoder import decode
from xv.props.common import new_case, build_root, flush_contracts, ctxs
from xv.props import c01 as _c01

ID = "C05"
LEVEL = "exploration"
N_QUICK, N_THOROUGH = 220000, 3000000
T_QUICK, T_THOROUGH = 70, 1500
FORMS = ["plain", "plain", "plain", "kwargs", "nd_c", "nd_f", "nd_strided", "nd_swapped", "nd_obj", "xobj_same", "xobj_other", "nested_xobj"]
FLOORS = {"objects_decoded": 4000, "parts_checked": 100000, "seen:st": 1000, "seen:str": 500, "seen:ref": 300,
          "seen:ur": 200, "seen:ar2doD": 20, "seen:ar2dS": 100, "seen:ar3soS": 20, "nonnull_refs_decoded": 300,
          "null_refs_decoded": 100, "strides_checked": 100, "decodes_after_assignment": 3000,
          "assign:whole-from-xobject": 150, "assign:ref": 150, "assign:leaf": 1000}
FLOORS.update({"form:" + f: 400 for f in set(FORMS)})
FLOORS.update({"form:dims": 400, "extents_given_as_numpy_integers": 200})
RULE = ("random type AST x value x placement x input form (plain data, kwargs, ndarray C/F/strided/object, another "
        "xobject of the same or another buffer, nested xobjects; arrays of static items also from their extents alone, given as python or numpy integers of any width, then filled item by item), followed by 0-3 fitting assignments (leaf, whole "
        "nested struct/array from plain data or from an xobject living elsewhere in the same buffer, reference "
        "re-binding); after construction and after EVERY assignment the raw bytes of the buffer are handed to a "
        "decoder written only from Architecture.md / types.rst / the property text, which must recover the model "
        "value with no format violation (slots, size words, field order, offset tables in memory order, stored "
        "strides == declared order, NUL termination, null encodings, references relative to their own slot). "
        "distinct = (name-erased AST, input form, placement class); non-trivial = has a compound node.")
ASSUMPTIONS = ["where types.rst (Ref = offset from buffer start) and the property text (relative to own slot) disagree, the property text wins",
               "item data of dynamic-item arrays need not be contiguous or ordered; only the table position is checked"]


def _is_target(label):
    return label.endswith("->") or (label[-1].isdigit() and label[-3:-1] == "->")


def _construct(c, rng, form):
    t, cls, env = c.t, c.cls, c.env
    if form in ("plain", "kwargs") or t["k"] in ("ur", "str"):
        return build_root(c, rng)
    if form in ("xobj_same", "xobj_other"):
        a = plain(t, c.mv, rng, np_scalars=True)
        if form == "xobj_same":
            src = cls(a, _buffer=env.buf)
        else:
            src = cls(a, _context=ctxs()[1]) if rng.random() < 0.5 else cls(a)
        env.repoison()
        arg = src
    else:
        arg = _c01.to_input(t, c.mv, rng, form, c.cache, env)
        env.repoison()
    kw = dict(_buffer=env.buf)
    if c.mode in ("aligned", "packed"):
        kw["_offset"] = c.mode
    return cls(arg, **kw)


def _mutate(c, rng, h, view, mv):
    """One random fitting assignment; returns (new model, description) or None."""
    t, env = c.t, c.env
    allnodes = [(p, l, nt, nv) for p, l, nt, nv in nodes(t, mv) if p]
    r = rng.random()
    if r < 0.45:
        op, cand = "leaf", [x for x in allnodes if x[2]["k"] in ("sc", "str")]
    elif r < 0.8:
        op, cand = "whole", [x for x in allnodes if x[2]["k"] in ("st", "ar") and not _is_target(x[1]) and
                             (x[2]["k"] == "st" or 0 not in x[3].shape)]
    else:
        op, cand = "ref", [x for x in allnodes if x[2]["k"] in ("ref", "ur")]
    if not cand:
        return None
    p, l, nt, nv = rng.choice(cand)
    k = nt["k"]
    newv = c.vg.value(nt) if op == "ref" else c.vg.same_shape(nt, nv)
    arg = plain(nt, newv, rng, np_scalars=True)
    how = op
    if op == "whole" and rng.random() < 0.5:
        arg = build(nt, c.cache)(arg, _buffer=env.buf if rng.random() < 0.75 else None)
        how = "whole-from-xobject"
    elif op == "ref" and newv is not None and rng.random() < 0.4:
        tt = nt["to"] if k == "ref" else nt["m"][newv[0]]
        arg = build(tt, c.cache)(plain(tt, newv if k == "ref" else newv[1], rng), _buffer=env.buf)
    set_path(rng.choice([h, view]), p, arg)
    return set_model(t, mv, p, newv), [how, l, repr(arg)[:80]]


def _judge(w, c, h, mv, info, stage, seen):
    raw = bufmon.raw_bytes(c.env.buf)
    v, ext, errs, targets = decode(c.t, raw, int(h._offset))
    for kind, label, detail in errs:
        if (stage, kind) in seen:
            continue
        seen.add((stage, kind))
        w.violation(f"decode{stage}:" + kind, f"{label}: {detail}", info)
    if v is not None or ext is not None:
        w.count("parts_checked", sum(1 for r in [ext] + targets for _ in r.flat()))
        w.count("nonnull_refs_decoded", len(targets))
        d = diff_model(c.t, v, mv)
        if d is not None and (stage, "diff") not in seen:
            seen.add((stage, "diff"))
            w.violation(f"decoded-value-differs{stage}|{d[1]}", f"at {d[0]}", info)
    return bool(seen)


_NPINT = [np.int8, np.uint8, np.int16, np.uint16, np.int32, np.uint32, np.int64, np.uint64]


def _dims_case(w, rng):
    """An array with statically sized items created from its dynamic extents alone (python integers or numpy integers
    of any width, also narrow ones), small or fairly large; afterwards every item is assigned through the handle and
    the bytes are decoded: header (extents, strides implied by the declared order) and every value."""
    from xv.typegen import TypeGen, ValGen, AVal, is_static
    from xv.model import Env
    from xv.props.common import Case
    tg = TypeGen(rng, max_depth=2, refs=False, strings=False)
    for _ in range(50):
        t = tg.g_ar(2)
        if is_static(t["it"]) and None in t["dims"]:
            break
    else:
        return
    c = Case()
    c.t, c.cache = t, {}
    c.cls = build(t, c.cache)
    big = t["it"]["k"] == "sc" and rng.random() < 0.5
    shape = [d if d is not None else (rng.randint(5, 40) if big else rng.randint(0, 3)) for d in t["dims"]]
    while int(np.prod(shape)) > 1500:  # keep the item-by-item fill cheap (and inside the decoder's sanity cap)
        i = max((i for i, d in enumerate(t["dims"]) if d is None), key=lambda i: shape[i])
        shape[i] = max(1, shape[i] // 2)
    vg = ValGen(rng)
    mv = AVal(shape, {idx: vg.value(t["it"]) for idx in np.ndindex(*shape)})
    c.env = Env(rng, ctx=ctxs()[0])
    args, how = [], []
    for s_, d in zip(shape, t["dims"]):
        if d is None:
            ty = rng.choice([int, int] + [x for x in _NPINT if s_ <= np.iinfo(x).max])
            args.append(ty(s_))
            how.append(ty.__name__)
    info = dict(type=t, shape=shape, extents_given_as=how, placement=c.env.placement(), form="dims")
    try:
        try:
            h = c.cls(*args, _buffer=c.env.buf)
            for idx, v in mv.items.items():
                h[idx if len(idx) > 1 else idx[0]] = plain(t["it"], v, rng, np_scalars=True)
        except Exception as e:
            w.violation(f"construct-{exc_kind(e)}|dims", f"{type(e).__name__}: {e}", info)
            return
        w.count("objects_decoded")
        w.count("form:dims")
        if any(x != "int" for x in how):
            w.count("extents_given_as_numpy_integers")
        if len(shape) > 1:
            w.count("strides_checked")
        _judge(w, c, h, mv, info, "", set())
        w.case([shape_sig(t), "dims", how], nontrivial=True)
    finally:
        c.env.close()
        flush_contracts(w, info)


def run_case(w, rng):
    if rng.random() < 0.06:
        return _dims_case(w, rng)
    form = rng.choice(FORMS)
    c = new_case(w, rng, roots=("ar", "ar", "st") if form.startswith("nd_") else ("st", "ar", "str", "ur"),
                 modes=(None, None, "aligned", "packed", "explicit") if form in ("plain", "kwargs") else (None, None, "aligned", "packed"))
    info = dict(c.info, form=form)
    try:
        try:
            h = _construct(c, rng, form)
        except Exception as e:
            w.violation(f"construct-{exc_kind(e)}|{form}", f"{type(e).__name__}: {e}", info)
            return
        w.count("objects_decoded")
        w.count("form:" + form)
        for kk in kinds_in(c.t):
            w.seen(kk)
        for n in walk(c.t):
            if n["k"] == "ar" and len(n["dims"]) > 1 and None in n["dims"]:
                w.count("strides_checked")
        w.count("null_refs_decoded", _nulls(c.t, c.mv))
        seen = set()
        bad = _judge(w, c, h, c.mv, info, "", seen)
        if not bad and c.t["k"] in ("st", "ar"):
            mv = c.mv
            view = c.cls._from_buffer(c.env.buf, h._offset)
            hist = []
            for _ in range(rng.choice([0, 0, 1, 2, 3])):
                try:
                    r = _mutate(c, rng, h, view, mv)
                except Exception as e:
                    w.violation(f"assign-{exc_kind(e)}", f"{type(e).__name__}: {e}", dict(info, history=hist))
                    break
                if r is None:
                    continue
                mv, desc = r
                hist.append(desc)
                w.count("decodes_after_assignment")
                w.count("assign:" + desc[0])
                if _judge(w, c, h, mv, dict(info, history=hist), "-after-assignment", seen):
                    break
        w.case([shape_sig(c.t), form, c.env.kind, c.env.al, c.mode], sample=info if c.nontrivial and rng.random() < 0.003 else None,
               nontrivial=c.nontrivial)
    finally:
        c.env.close()
        flush_contracts(w, info)


def _nulls(t, mv):
    k = t["k"]
    if k in ("ref", "ur"):
        if mv is None:
            return 1
        return _nulls(t["to"], mv) if k == "ref" else _nulls(t["m"][mv[0]], mv[1])
    if k == "st":
        return sum(_nulls(ft, mv[fn]) for fn, ft in t["f"])
    if k == "ar":
        return sum(_nulls(t["it"], v) for v in mv.items.values())
    return 0
