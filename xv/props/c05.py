"""C05 — object bytes follow the documented binary layout (independent decoder)."""
from xv import bufmon
from xv.typegen import kinds_in, shape_sig, diff_model, walk
from xv.model import exc_kind
from xv.decoder import decode
from xv.props.common import new_case, build_root, flush_contracts

ID = "C05"
LEVEL = "exploration"
N_QUICK, N_THOROUGH = 100000, 3000000
T_QUICK, T_THOROUGH = 70, 1500
FLOORS = {"objects_decoded": 4000, "parts_checked": 100000, "seen:st": 1000, "seen:str": 500, "seen:ref": 300,
          "seen:ur": 200, "seen:ar2doD": 20, "seen:ar2dS": 100, "seen:ar3soS": 20, "nonnull_refs_decoded": 300,
          "null_refs_decoded": 100, "strides_checked": 100}
RULE = ("random type AST x value x placement (as C01, plain-data and kwargs input forms); the raw bytes of the "
        "buffer are handed to a decoder written only from Architecture.md / types.rst / the property text, which "
        "must recover the model value with no format violation (slots, size words, field order, offset tables in "
        "memory order, stored strides == declared order, NUL termination, null encodings). distinct = (name-erased "
        "AST, placement class); non-trivial = has a compound node.")
ASSUMPTIONS = ["where types.rst (Ref = offset from buffer start) and the property text (relative to own slot) disagree, the property text wins",
               "item data of dynamic-item arrays need not be contiguous or ordered; only the table position is checked"]


def run_case(w, rng):
    c = new_case(w, rng)
    try:
        try:
            h = build_root(c, rng)
        except Exception as e:
            w.violation(f"construct-{exc_kind(e)}", f"{type(e).__name__}: {e}", c.info)
            return
        raw = bufmon.raw_bytes(c.env.buf)
        v, ext, errs, targets = decode(c.t, raw, int(h._offset))
        w.count("objects_decoded")
        for kk in kinds_in(c.t):
            w.seen(kk)
        seen = set()
        for kind, label, detail in errs:
            if kind in seen:
                continue
            seen.add(kind)
            w.violation("decode:" + kind, f"{label}: {detail}", c.info)
        if v is not None or ext is not None:
            parts = sum(1 for r in [ext] + targets for _ in r.flat())
            w.count("parts_checked", parts)
            w.count("nonnull_refs_decoded", len(targets))
            for n in walk(c.t):
                if n["k"] == "ar" and len(n["dims"]) > 1 and None in n["dims"]:
                    w.count("strides_checked")
            d = diff_model(c.t, v, c.mv)
            if d is not None:
                w.violation(f"decoded-value-differs|{d[1]}", f"at {d[0]}", c.info)
            w.count("null_refs_decoded", _nulls(c.t, c.mv))
        w.case([shape_sig(c.t), c.env.kind, c.env.al, c.mode], sample=c.info if c.nontrivial and rng.random() < 0.003 else None,
               nontrivial=c.nontrivial)
    finally:
        c.env.close()
        flush_contracts(w, c.info)


def _nulls(t, mv):
    k = t["k"]
    if k in ("ref", "ur"):
        if mv is None:
            return 1
        return _nulls(t["to"], mv) if k == "ref" else _nulls(t["m"][mv[0]], mv[1])
    if k == "st":
        return sum(_nulls(ft, mv[fn]) for fn, ft in t["f"])
    if k == "ar":
        return sum(_nulls(t["it"], v) for v in mv.items.values())
    return 0
