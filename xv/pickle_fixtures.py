"""Importable classes for the cross-process pickle case of C20 (a pickle written by one interpreter is read by
another one, started with another hash seed)."""
import numpy as np

import xobjects as xo


class FxPoint(xo.Struct):
    x = xo.Float64
    y = xo.Float64


class FxRec(xo.Struct):
    k = xo.Int64
    name = xo.String
    pts = FxPoint[:]
    w = xo.Float32[:]
    tail = xo.Int16[3]


class FxTable(xo.Int32[:, 3]):
    pass


class FxInner(xo.HybridClass):
    _xofields = {"a": xo.Float64, "v": xo.Int64[:]}
    _rename = {"a": "py_a"}


class FxOuter(xo.HybridClass):
    _xofields = {"n": xo.Int32, "inner": FxInner, "s": xo.String}


def make(seed):
    """-> (objects sharing one buffer, their values as plain data)"""
    r = np.random.default_rng(seed)
    buf = xo.ContextCpu().new_buffer(capacity=64)
    buf.allocate(int(r.integers(1, 30)))
    n = int(r.integers(0, 4))
    rec = FxRec(k=int(r.integers(-9, 9)), name="n" * int(r.integers(0, 20)) + "é", pts=[dict(x=i + 0.5, y=-i) for i in range(n)],
                w=r.integers(0, 9, int(r.integers(0, 5))).astype(np.float32), tail=[1, 2, 3], _buffer=buf)
    tab = FxTable(r.integers(-5, 5, (int(r.integers(1, 4)), 3)), _buffer=buf)
    out = FxOuter(n=int(r.integers(0, 99)), inner=FxInner(py_a=2.25, v=[4, 5, 6][: int(r.integers(0, 4))]), s="s" * int(r.integers(0, 9)),
                  _buffer=buf)
    return [rec, tab, out], values([rec, tab, out])


def values(objs):
    rec, tab, out = objs
    return dict(rec=[int(rec.k), rec.name, [[float(p.x), float(p.y)] for p in rec.pts], [float(v) for v in rec.w], [int(v) for v in rec.tail]],
                tab=np.asarray(tab.to_nparray()).tolist(),
                out=[int(out.n), float(out.inner.py_a), [int(v) for v in out.inner.v], out.s],
                shared=[objs[i]._buffer is objs[j]._buffer for i in range(3) for j in range(i + 1, 3)])


if __name__ == "__main__":
    import json
    import pickle
    import sys

    with open(sys.argv[1], "rb") as f:
        objs = pickle.load(f)
    v = values(objs)
    # usable: a write and a new object in the unpickled buffer
    objs[0].k = 77
    extra = FxPoint(x=1, y=2, _buffer=objs[0]._buffer)
    v["after"] = [int(objs[0].k), float(extra.x), values(objs)["tab"] == v["tab"]]
    print("XVJSON" + json.dumps(v))
